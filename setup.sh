#!/bin/bash
# Build the harness test binaries (race and non-race) from files on disk only.
set -e
cd "$(dirname "$0")"
export GOFLAGS=-mod=mod GOPROXY=off
GOROOT_R=$(cd /repo && go env GOROOT)
GO="$GOROOT_R/bin/go"
export GOTOOLCHAIN=local GOSUMDB=off
mkdir -p out/bin evidence
cd harness
"$GO" test -c -race -tags verif -o ../out/bin/harness.race.test .
"$GO" test -c -tags verif -o ../out/bin/harness.norace.test .
echo "setup ok: $("$GO" version)"
