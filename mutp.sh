#!/bin/bash
# mutp.sh <tag> <patch.diff> <Cnn> [<Cnn>...] : like mut.sh, but applies the change to a scratch worktree of
# /repo HEAD under /tmp/mutp/<tag> with its own output and evidence directories, so that several changes can be
# tried at once and /repo and /verif/evidence stay untouched. The worktree is removed afterwards.
tag=$1; patch=$(realpath "$2"); shift 2
W=/tmp/mutp/$tag
mkdir -p /tmp/mutp
git -C /repo worktree remove --force $W/repo 2>/dev/null; rm -rf $W
mkdir -p $W
git -C /repo worktree add --detach $W/repo HEAD >/dev/null 2>&1 || { echo "worktree failed"; exit 2; }
trap 'git -C /repo worktree remove --force '$W'/repo 2>/dev/null; rm -rf '$W'/out/bin '$W'/repo' EXIT
git -C $W/repo apply "$patch" || { echo "patch does not apply"; exit 2; }
for id in "$@"; do
  out=$(cd /verif && VERIF_REPO=$W/repo VERIF_OUTROOT=$W/out VERIF_EVIDENCE=$W/evidence VERIF_SEED=${VERIF_SEED:-1} ./run.sh $id ${MUT_TIER:-quick} 2>&1)
  rc=$?
  case $rc in
    1) echo "CAUGHT  $id  $(echo "$out" | grep -m1 'key=' | cut -c1-220)";;
    0) echo "MISSED  $id  $(echo "$out" | tail -1 | cut -c1-160)";;
    *) echo "INCONCLUSIVE $id rc=$rc $(echo "$out" | grep -m1 INCONCLUSIVE | cut -c1-200)";;
  esac
done
