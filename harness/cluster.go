package harness

// Node wrapper around real memberlist.Memberlist instances on the simulated
// network, with the always-on monitors (event automaton = C07, self-defence
// invariant = C02) and recording delegates.

import (
	"bytes"
	"fmt"
	"log"
	"net"
	"runtime"
	"sort"
	"strings"
	"sync"
	"sync/atomic"
	"time"

	"github.com/hashicorp/memberlist"
)

// ---- log capture ----

type LogLine struct {
	At   time.Time
	Text string
}

type LogBuf struct {
	mu    sync.Mutex
	lines []LogLine
	part  []byte
	// OnLine, if set, is called (outside the buffer's own lock, on the goroutine that logs) for every complete line:
	// a log sink may be slow, or be the point at which something else happens
	OnLine func(text string)
}

func (l *LogBuf) Write(p []byte) (int, error) {
	l.mu.Lock()
	l.part = append(l.part, p...)
	var fresh []string
	for {
		i := bytes.IndexByte(l.part, '\n')
		if i < 0 {
			break
		}
		l.lines = append(l.lines, LogLine{At: time.Now(), Text: string(l.part[:i])})
		if l.OnLine != nil {
			fresh = append(fresh, string(l.part[:i]))
		}
		l.part = l.part[i+1:]
	}
	hook := l.OnLine
	l.mu.Unlock()
	for _, t := range fresh {
		hook(t)
	}
	return len(p), nil
}

func (l *LogBuf) Lines() []LogLine {
	l.mu.Lock()
	defer l.mu.Unlock()
	return append([]LogLine(nil), l.lines...)
}

func (l *LogBuf) Len() int {
	l.mu.Lock()
	defer l.mu.Unlock()
	return len(l.lines)
}

// Grep returns the lines containing any of the substrings, from index `from`.
func (l *LogBuf) Grep(from int, subs ...string) []LogLine {
	l.mu.Lock()
	defer l.mu.Unlock()
	var out []LogLine
	for _, ln := range l.lines[min(from, len(l.lines)):] {
		for _, s := range subs {
			if strings.Contains(ln.Text, s) {
				out = append(out, ln)
				break
			}
		}
	}
	return out
}

func (l *LogBuf) Tail(n int) []string {
	l.mu.Lock()
	defer l.mu.Unlock()
	var out []string
	for _, ln := range l.lines[max(0, len(l.lines)-n):] {
		out = append(out, ln.At.Format("15:04:05.000000")+" "+ln.Text)
	}
	return out
}

// ---- problems (monitor findings) ----

type Problem struct {
	Key  string
	What string
	At   time.Time
	Node string
}

type problemSink struct {
	mu   sync.Mutex
	list []Problem
}

func (s *problemSink) add(node, key, format string, a ...any) {
	s.mu.Lock()
	defer s.mu.Unlock()
	if len(s.list) < 50 {
		s.list = append(s.list, Problem{Key: key, What: "[" + node + " @" + time.Now().Format("15:04:05.000") + "] " + fmt.Sprintf(format, a...), At: time.Now(), Node: node})
	}
}

func (s *problemSink) take() []Problem {
	s.mu.Lock()
	defer s.mu.Unlock()
	out := s.list
	s.list = nil
	return out
}

// ---- event monitor (C07) ----

type EvRec struct {
	At   time.Time
	Kind string // join | leave | update
	Name string
	Addr string
	Port uint16
	Meta string
}

type memberInfo struct {
	Addr string
	Port uint16
	Meta string
}

type EventMon struct {
	node       *SimNode
	inflight   atomic.Int32
	mu         sync.Mutex
	present    map[string]memberInfo
	log        []EvRec
	perName    map[string][]EvRec
	Events     atomic.Int64
	InCbCmp    atomic.Int64
	Widen      bool
	OnEvent    func(ev EvRec)
	Cells      map[string]int64 // transition x cause, filled when TrackCause is set
	TrackCause bool
	lastLeave  map[string]string // name -> "left" | "dead"
}

// causeFromStack names what made memberlist deliver the event.
func causeFromStack() string {
	pcs := make([]uintptr, 40)
	n := runtime.Callers(3, pcs)
	frames := runtime.CallersFrames(pcs[:n])
	cause := "other"
	for {
		f, more := frames.Next()
		fn := f.Function
		switch {
		case strings.HasSuffix(fn, ".mergeState"):
			return "push-pull"
		case strings.HasSuffix(fn, ".handleAlive"), strings.HasSuffix(fn, ".handleDead"), strings.HasSuffix(fn, ".handleSuspect"):
			return "gossip"
		case strings.Contains(fn, ".suspectNode.func"):
			return "own-timer"
		case strings.HasSuffix(fn, ".Leave"), strings.HasSuffix(fn, ".UpdateNode"), strings.HasSuffix(fn, ".setAlive"):
			return "local-api"
		case strings.HasSuffix(fn, ".probeNode"):
			cause = "own-probe"
		}
		if !more {
			break
		}
	}
	return cause
}

func (e *EventMon) enter() {
	if n := e.inflight.Add(1); n != 1 {
		e.node.sink.add(e.node.Name, "C07/overlap", "event callbacks overlap: %d in flight", n)
	}
	if e.Widen {
		runtime.Gosched()
	}
}

func (e *EventMon) leave() { e.inflight.Add(-1) }

func (e *EventMon) handle(kind string, n *memberlist.Node) {
	e.enter()
	defer e.leave()
	e.Events.Add(1)
	rec := EvRec{At: time.Now(), Kind: kind, Name: n.Name, Addr: n.Addr.String(), Port: n.Port, Meta: string(n.Meta)}
	e.mu.Lock()
	_, was := e.present[n.Name]
	switch kind {
	case "join":
		if was {
			e.node.sink.add(e.node.Name, "C07/automaton/join-while-present", "join for %s while already present; history %v", n.Name, e.perName[n.Name])
		}
		e.present[n.Name] = memberInfo{rec.Addr, rec.Port, rec.Meta}
	case "update":
		if !was {
			e.node.sink.add(e.node.Name, "C07/automaton/update-while-absent", "update for %s while absent; history %v", n.Name, e.perName[n.Name])
		}
		e.present[n.Name] = memberInfo{rec.Addr, rec.Port, rec.Meta}
	case "leave":
		if !was {
			e.node.sink.add(e.node.Name, "C07/automaton/leave-while-absent", "leave for %s while absent; history %v", n.Name, e.perName[n.Name])
		}
		delete(e.present, n.Name)
	}
	if e.TrackCause {
		if e.Cells == nil {
			e.Cells = map[string]int64{}
			e.lastLeave = map[string]string{}
		}
		trans := kind
		switch kind {
		case "join":
			switch {
			case len(e.perName[n.Name]) == 0:
				trans = "join/first"
			default:
				trans = "join/after-" + e.lastLeave[n.Name]
				if prev := e.perName[n.Name]; len(prev) > 0 && (prev[0].Addr != rec.Addr || prev[0].Port != rec.Port) {
					trans += "/new-address"
				}
			}
		case "leave":
			how := "dead"
			if m := e.node.M.Load(); m != nil {
				for _, r := range m.VerifDumpLocked().Records {
					if r.Name == n.Name && r.State == memberlist.StateLeft {
						how = "left"
					}
				}
			}
			e.lastLeave[n.Name] = how
			trans = "leave/" + how
		}
		e.Cells[trans+"|"+causeFromStack()]++
	}
	e.log = append(e.log, rec)
	e.perName[n.Name] = append(e.perName[n.Name], rec)
	snapshot := make(map[string]memberInfo, len(e.present))
	for k, v := range e.present {
		snapshot[k] = v
	}
	cb := e.OnEvent
	e.mu.Unlock()
	// Inside the callback memberlist holds the node lock: compare with the table.
	if m := e.node.M.Load(); m != nil {
		e.InCbCmp.Add(1)
		v := m.VerifDumpLocked()
		e.compare("in-callback("+kind+" "+n.Name+")", snapshot, liveOf(v))
	}
	if cb != nil {
		cb(rec)
	}
}

func liveOf(v memberlist.VerifView) map[string]memberInfo {
	out := map[string]memberInfo{}
	for _, r := range v.Records {
		if r.State == memberlist.StateDead || r.State == memberlist.StateLeft {
			continue
		}
		out[r.Name] = memberInfo{netIPString(r.Addr), r.Port, string(r.Meta)}
	}
	return out
}

func netIPString(b []byte) string {
	return ipString(b)
}

func (e *EventMon) compare(where string, replayed, actual map[string]memberInfo) {
	for name, a := range actual {
		r, ok := replayed[name]
		if !ok {
			e.node.sink.add(e.node.Name, "C07/replay/member-without-join", "%s: %s is a live member but the event replay does not contain it (no join event)", where, name)
			continue
		}
		if r.Meta != a.Meta {
			e.node.sink.add(e.node.Name, "C07/replay/meta", "%s: %s meta in Members()=%q, last event carried %q; events about it: %v", where, name, a.Meta, r.Meta, e.History(name))
		}
		if r.Addr != a.Addr || r.Port != a.Port {
			e.node.sink.add(e.node.Name, "C07/replay/addr", "%s: %s address in Members()=%s:%d, last event carried %s:%d", where, name, a.Addr, a.Port, r.Addr, r.Port)
		}
	}
	for name := range replayed {
		if _, ok := actual[name]; !ok {
			e.node.sink.add(e.node.Name, "C07/replay/gone-without-leave", "%s: event replay lists %s but Members() does not (no leave event)", where, name)
		}
	}
}

// History returns the recorded events about one member (compact form).
func (e *EventMon) History(name string) []string {
	e.mu.Lock()
	defer e.mu.Unlock()
	var out []string
	for _, r := range e.perName[name] {
		out = append(out, fmt.Sprintf("%s@%s(%s)", r.Kind, r.At.Format("04:05.000"), r.Meta))
	}
	return out
}

func (e *EventMon) NotifyJoin(n *memberlist.Node)   { e.handle("join", n) }
func (e *EventMon) NotifyLeave(n *memberlist.Node)  { e.handle("leave", n) }
func (e *EventMon) NotifyUpdate(n *memberlist.Node) { e.handle("update", n) }

// EventsAbout is the number of events delivered about one member so far.
func (e *EventMon) EventsAbout(name string) int {
	e.mu.Lock()
	defer e.mu.Unlock()
	return len(e.perName[name])
}

func (e *EventMon) Log() []EvRec {
	e.mu.Lock()
	defer e.mu.Unlock()
	return append([]EvRec(nil), e.log...)
}

func (e *EventMon) Present() map[string]memberInfo {
	e.mu.Lock()
	defer e.mu.Unlock()
	out := make(map[string]memberInfo, len(e.present))
	for k, v := range e.present {
		out[k] = v
	}
	return out
}

// ---- user delegate ----

type UserDelegate struct {
	mu         sync.Mutex
	Meta       []byte
	Msgs       [][]byte // NotifyMsg payloads
	MsgAt      []time.Time
	Pending    [][]byte // user broadcasts to hand out
	HandedOut  [][]byte
	HandOutLog []HandOut
	State      []byte
	Merged     []MergedState
	LocalCalls int
	Gate       chan struct{}
	// NodeMeta parks on MetaGate (if set) after closing MetaEntered
	MetaGate    chan struct{}
	MetaEntered chan struct{} // if set, NotifyMsg blocks until it can receive
	FillExact   bool          // hand out as much as fits
	OnMsg       func([]byte)
	StateDelay  time.Duration // LocalState takes this long (set before the node starts)
}

type HandOut struct {
	At       time.Time
	Overhead int
	Limit    int
	Msgs     [][]byte
}

type MergedState struct {
	At   time.Time
	Buf  []byte
	Join bool
}

func (d *UserDelegate) NodeMeta(limit int) []byte {
	d.mu.Lock()
	g, e := d.MetaGate, d.MetaEntered
	d.MetaEntered = nil
	d.mu.Unlock()
	if g != nil {
		// park the caller (an UpdateNode in flight) until the scenario releases it
		if e != nil {
			close(e)
		}
		<-g
	}
	d.mu.Lock()
	defer d.mu.Unlock()
	return append([]byte(nil), d.Meta...)
}

func (d *UserDelegate) SetMeta(b []byte) {
	d.mu.Lock()
	d.Meta = append([]byte(nil), b...)
	d.mu.Unlock()
}

func (d *UserDelegate) NotifyMsg(b []byte) {
	d.mu.Lock()
	g := d.Gate
	d.mu.Unlock()
	if g != nil {
		<-g
	}
	d.mu.Lock()
	d.Msgs = append(d.Msgs, append([]byte(nil), b...))
	d.MsgAt = append(d.MsgAt, time.Now())
	cb := d.OnMsg
	d.mu.Unlock()
	if cb != nil {
		cb(b)
	}
}

func (d *UserDelegate) GetBroadcasts(overhead, limit int) [][]byte {
	d.mu.Lock()
	defer d.mu.Unlock()
	var out [][]byte
	used := 0
	rest := d.Pending[:0:0]
	for _, m := range d.Pending {
		if used+overhead+len(m) <= limit {
			used += overhead + len(m)
			out = append(out, m)
		} else {
			rest = append(rest, m)
		}
	}
	d.Pending = rest
	if len(out) > 0 {
		d.HandedOut = append(d.HandedOut, out...)
		d.HandOutLog = append(d.HandOutLog, HandOut{time.Now(), overhead, limit, out})
	}
	return out
}

func (d *UserDelegate) LocalState(join bool) []byte {
	if w := d.StateDelay; w > 0 {
		time.Sleep(w) // an application that takes its time to serialise its state
	}
	d.mu.Lock()
	defer d.mu.Unlock()
	d.LocalCalls++
	if d.State == nil {
		return nil
	}
	return append([]byte(nil), d.State...)
}

func (d *UserDelegate) MergeRemoteState(buf []byte, join bool) {
	d.mu.Lock()
	defer d.mu.Unlock()
	d.Merged = append(d.Merged, MergedState{time.Now(), append([]byte(nil), buf...), join})
}

func (d *UserDelegate) Queue(m ...[]byte) {
	d.mu.Lock()
	d.Pending = append(d.Pending, m...)
	d.mu.Unlock()
}

func (d *UserDelegate) Received() [][]byte {
	d.mu.Lock()
	defer d.mu.Unlock()
	return append([][]byte(nil), d.Msgs...)
}

func (d *UserDelegate) MergedStates() []MergedState {
	d.mu.Lock()
	defer d.mu.Unlock()
	return append([]MergedState(nil), d.Merged...)
}

// ---- conflict / merge / alive / ping delegates ----

type ConflictRec struct {
	At              time.Time
	Existing, Other string
	ExAddr, OtAddr  string
	ExPort, OtPort  uint16
}

type conflictDel struct{ n *SimNode }

func (c conflictDel) NotifyConflict(existing, other *memberlist.Node) {
	c.n.mu.Lock()
	c.n.Conflicts = append(c.n.Conflicts, ConflictRec{time.Now(), existing.Name, other.Name, existing.Addr.String(), other.Addr.String(), existing.Port, other.Port})
	c.n.mu.Unlock()
}

type mergeDel struct{ n *SimNode }

func (d mergeDel) NotifyMerge(peers []*memberlist.Node) error {
	d.n.mu.Lock()
	d.n.MergeCalls++
	f := d.n.MergeVeto
	d.n.mu.Unlock()
	if f != nil {
		return f(peers)
	}
	return nil
}

type aliveDel struct{ n *SimNode }

func (d aliveDel) NotifyAlive(peer *memberlist.Node) error {
	d.n.mu.Lock()
	f := d.n.AliveVeto
	d.n.mu.Unlock()
	if f != nil {
		return f(peer)
	}
	return nil
}

type pingDel struct{ n *SimNode }

func (d pingDel) AckPayload() []byte {
	d.n.mu.Lock()
	defer d.n.mu.Unlock()
	return append([]byte(nil), d.n.AckPayload...)
}

func (d pingDel) NotifyPingComplete(other *memberlist.Node, rtt time.Duration, payload []byte) {
	d.n.mu.Lock()
	d.n.PingDone = append(d.n.PingDone, PingRec{time.Now(), other.Name, rtt, append([]byte(nil), payload...)})
	d.n.mu.Unlock()
}

type PingRec struct {
	At      time.Time
	Node    string
	RTT     time.Duration
	Payload []byte
}

// ---- node ----

type SimNode struct {
	Spec NodeSpec // as given to Add
	Name string
	EP   *Endpoint
	M    atomic.Pointer[memberlist.Memberlist]
	Conf *memberlist.Config
	Ev   *EventMon
	Del  *UserDelegate
	Log  *LogBuf
	sink *problemSink

	mu         sync.Mutex
	Conflicts  []ConflictRec
	MergeCalls int
	MergeVeto  func([]*memberlist.Node) error
	AliveVeto  func(*memberlist.Node) error
	AckPayload []byte
	PingDone   []PingRec

	Crashed  bool
	Stopped  bool
	LeftAt   time.Time
	Departed bool // Leave() returned nil

	// C01 monitor: the view of every member as of the previous quiescent check
	lastView  map[string]viewRec
	lastCheck time.Time
}

type viewRec struct {
	inc    uint32
	rank   int
	addr   string
	change time.Time // StateChange of the record
	events int       // events delivered about the member up to this check
}

func (n *SimNode) ML() *memberlist.Memberlist { return n.M.Load() }

// Cluster groups nodes on one Net.
type Cluster struct {
	Net   *Net
	Nodes []*SimNode
	sink  *problemSink
	ipSeq int
}

func NewCluster(seed int64) *Cluster {
	return &Cluster{Net: NewNet(seed), sink: &problemSink{}}
}

// BaseConfig is the LAN default with the simulated transport.
func BaseConfig(name string) *memberlist.Config {
	c := memberlist.DefaultLANConfig()
	c.Name = name
	c.BindPort = 7946
	c.AdvertisePort = 7946
	c.EnableCompression = false
	c.ProtocolVersion = memberlist.ProtocolVersionMax
	c.QueueCheckInterval = time.Hour
	c.DNSConfigPath = "/nonexistent"
	return c
}

type NodeSpec struct {
	Name                             string
	IP                               string // default 10.0.0.<k>
	Port                             int    // default 7946
	Mutate                           func(c *memberlist.Config)
	NoEvents, NoDelegate, NoConflict bool
	WithMerge, WithAlive, WithPing   bool
	Meta                             []byte
	PreCreate                        func(ep *Endpoint) // the address exists (traffic can already arrive); the node has not been created yet
}

// Add creates and starts a real memberlist node.
func (c *Cluster) Add(spec NodeSpec) (*SimNode, error) {
	c.ipSeq++
	if spec.IP == "" {
		spec.IP = fmt.Sprintf("10.0.%d.%d", c.ipSeq/250, c.ipSeq%250+1)
	}
	if spec.Port == 0 {
		spec.Port = 7946
	}
	n := &SimNode{Name: spec.Name, Log: &LogBuf{}, sink: c.sink, Spec: spec}
	n.EP = c.Net.NewEndpoint(spec.Name, spec.IP, spec.Port)
	conf := BaseConfig(spec.Name)
	conf.BindPort = spec.Port
	conf.AdvertisePort = spec.Port
	conf.Transport = n.EP
	conf.Logger = log.New(n.Log, "", 0)
	if !spec.NoEvents {
		n.Ev = &EventMon{node: n, present: map[string]memberInfo{}, perName: map[string][]EvRec{}, Widen: true, TrackCause: true}
		conf.Events = n.Ev
	}
	if !spec.NoDelegate {
		n.Del = &UserDelegate{Meta: spec.Meta}
		conf.Delegate = n.Del
	}
	if !spec.NoConflict {
		conf.Conflict = conflictDel{n}
	}
	if spec.WithMerge {
		conf.Merge = mergeDel{n}
	}
	if spec.WithAlive {
		conf.Alive = aliveDel{n}
	}
	if spec.WithPing {
		conf.Ping = pingDel{n}
	}
	if spec.Mutate != nil {
		spec.Mutate(conf)
	}
	n.Conf = conf
	if spec.PreCreate != nil {
		spec.PreCreate(n.EP)
	}
	m, err := memberlist.Create(conf)
	if err != nil {
		return nil, err
	}
	n.M.Store(m)
	c.Nodes = append(c.Nodes, n)
	return n, nil
}

func (c *Cluster) Node(name string) *SimNode {
	for i := len(c.Nodes) - 1; i >= 0; i-- {
		if c.Nodes[i].Name == name {
			return c.Nodes[i]
		}
	}
	return nil
}

// Crash black-holes the node and shuts it down.
func (c *Cluster) Crash(n *SimNode) {
	n.EP.Crash()
	n.Crashed = true
	n.Stopped = true
	_ = n.ML().Shutdown()
}

// Stop shuts the node down (transport closes: peers see refusals).
func (c *Cluster) Stop(n *SimNode) {
	n.Stopped = true
	_ = n.ML().Shutdown()
}

// Close shuts every node down and closes every connection.
func (c *Cluster) Close() {
	for _, n := range c.Nodes {
		if !n.Stopped {
			n.Stopped = true
			_ = n.ML().Shutdown()
		}
	}
	c.Net.CloseAll()
}

// Problems drains the monitor findings.
func (c *Cluster) Problems() []Problem { return c.sink.take() }

// CheckQuiescent runs the between-events monitors on every running node:
// C07 rule 4 (Members() == replayed events) and the C02 invariant.
func (c *Cluster) CheckQuiescent() {
	for _, n := range c.Nodes {
		if n.Stopped {
			continue
		}
		n.CheckQuiescent()
	}
}

func (n *SimNode) CheckQuiescent() {
	m := n.ML()
	if m == nil {
		return
	}
	v := m.VerifDump()
	if v.Shutdown {
		return
	}
	// Members() hands out pointers into live records: only the (immutable)
	// names are read through it, metadata comes from the locked dump taken at
	// the same quiescent instant.
	members := m.Members()
	if n.Ev != nil {
		byName := liveOf(v)
		actual := map[string]memberInfo{}
		for _, mb := range members {
			info, ok := byName[mb.Name]
			if !ok {
				n.sink.add(n.Name, "C07/members-vs-table", "Members() lists %s but the table holds no live record for it", mb.Name)
			}
			actual[mb.Name] = info
		}
		if len(byName) != len(members) {
			n.sink.add(n.Name, "C07/members-vs-table", "Members() returns %d nodes, the table holds %d live records", len(members), len(byName))
		}
		n.Ev.compare("quiescent", n.Ev.Present(), actual)
	}
	// C01 monitor: between two quiescent checks the view of a member that keeps its address never
	// moves backwards in (incarnation, alive < suspect < dead/left). A dead or left record old enough to
	// have been reaped (GossipToTheDeadTime) may legitimately have been forgotten and re-learnt.
	{
		cur := map[string]viewRec{}
		for i := range v.Records {
			r := &v.Records[i]
			if isPlaceholder(r) {
				continue
			}
			ev := 0
			if n.Ev != nil {
				ev = n.Ev.EventsAbout(r.Name)
			}
			cur[r.Name] = viewRec{r.Incarnation, rankState(r.State), fmt.Sprintf("%x:%d", r.Addr, r.Port), r.StateChange, ev}
		}
		now := time.Now()
		if !n.lastCheck.IsZero() && now.Sub(n.lastCheck) >= n.Conf.GossipToTheDeadTime {
			n.lastView = nil // too long ago: a record may have died, been reaped and come back since
		}
		n.lastCheck = now
		for name, p := range n.lastView {
			c, ok := cur[name]
			if !ok || c.addr != p.addr || name == n.Name || n.Ev == nil {
				continue
			}
			if c.events-p.events > 1 {
				// several membership transitions since the last check (e.g. the name left, was taken over from
				// another address, left again and came back): the intermediate views are unknown
				continue
			}
			back := c.inc < p.inc || (c.inc == p.inc && c.rank < p.rank)
			if !back {
				continue
			}
			if p.rank == 2 && now.Sub(p.change) >= n.Conf.GossipToTheDeadTime {
				continue // may have been reaped in between
			}
			n.sink.add(n.Name, "C01/monitor/view-moved-backwards", "view of %s went from %s@%d (since %v) to %s@%d at the same address", name, []string{"alive", "suspect", "dead/left"}[p.rank], p.inc, p.change.Format("15:04:05.000"), []string{"alive", "suspect", "dead/left"}[c.rank], c.inc)
		}
		n.lastView = cur
	}
	// C02 invariant
	if !v.Left {
		var self *memberlist.VerifRecord
		for i := range v.Records {
			if v.Records[i].Name == n.Name {
				self = &v.Records[i]
			}
		}
		if self == nil {
			n.sink.add(n.Name, "C02/invariant/self-missing", "running node has no record of itself")
		} else if self.State != memberlist.StateAlive {
			n.sink.add(n.Name, "C02/invariant/self-not-alive", "running node records itself as %s (inc %d)", StateNames[self.State], self.Incarnation)
		}
		found := false
		for _, mb := range members {
			if mb.Name == n.Name {
				found = true
			}
		}
		if !found {
			n.sink.add(n.Name, "C02/invariant/self-not-listed", "running node does not list itself in Members()")
		}
	}
	// structural sanity of the table
	if len(v.MapOnly) > 0 || len(v.TimerOnly) > 0 {
		// a timer for a name without record, or a map entry without slice entry
		n.sink.add(n.Name, "C07/structure", "table inconsistent: mapOnly=%v timerOnly=%v", v.MapOnly, v.TimerOnly)
	}
	seen := map[string]bool{}
	for _, r := range v.Records {
		if seen[r.Name] {
			n.sink.add(n.Name, "C07/structure", "duplicate record for %s", r.Name)
		}
		seen[r.Name] = true
		if !r.InMap {
			n.sink.add(n.Name, "C07/structure", "record %s not reachable through the name map", r.Name)
		}
	}
}

// MemberNames returns the sorted names in Members().
func (n *SimNode) MemberNames() []string {
	var out []string
	for _, mb := range n.ML().Members() {
		out = append(out, mb.Name)
	}
	sort.Strings(out)
	return out
}

// Record returns the node's record about `name` (nil if absent).
func (n *SimNode) Record(name string) *memberlist.VerifRecord {
	v := n.ML().VerifDump()
	for i := range v.Records {
		if v.Records[i].Name == name {
			return &v.Records[i]
		}
	}
	return nil
}

func ipString(b []byte) string { return net.IP(b).String() }

// FullMesh makes every running node push/pull with every other one, so that
// the cluster is formed deterministically (not by probabilistic gossip).
func (c *Cluster) FullMesh() error {
	for _, a := range c.Nodes {
		if a.Stopped {
			continue
		}
		var addrs []string
		for _, b := range c.Nodes {
			if a != b && !b.Stopped {
				addrs = append(addrs, b.EP.Addr)
			}
		}
		if len(addrs) == 0 {
			continue
		}
		if _, err := a.ML().Join(addrs); err != nil {
			return fmt.Errorf("%s join: %v", a.Name, err)
		}
	}
	return nil
}

// Converged reports whether every running node lists exactly the running nodes.
func (c *Cluster) Converged() bool {
	var want []string
	for _, n := range c.Nodes {
		if !n.Stopped {
			want = append(want, n.Name)
		}
	}
	sort.Strings(want)
	for _, n := range c.Nodes {
		if n.Stopped {
			continue
		}
		if fmt.Sprint(n.MemberNames()) != fmt.Sprint(want) {
			return false
		}
	}
	return true
}

// LogTails returns the last k log lines of every node (for witnesses).
func (c *Cluster) LogTails(k int) map[string][]string {
	out := map[string][]string{}
	for _, n := range c.Nodes {
		key := n.Name
		if n.Stopped {
			key += "(stopped)"
		}
		out[key] = append(out[key], n.Log.Tail(k)...)
	}
	return out
}

// EventCells merges the transition x cause counters of all nodes.
func (c *Cluster) EventCells() map[string]int64 {
	out := map[string]int64{}
	for _, n := range c.Nodes {
		if n.Ev == nil {
			continue
		}
		n.Ev.mu.Lock()
		for k, v := range n.Ev.Cells {
			out[k] += v
		}
		n.Ev.mu.Unlock()
	}
	return out
}
