package harness

// C18 — the CIDR allowlist is enforced on every admission path.

import (
	"bytes"
	"fmt"
	"net"
	"net/netip"
	"strings"
	"testing"
	"time"

	"github.com/hashicorp/memberlist"
)

type c18List struct {
	Name   string
	CIDRs  []string
	VIP    string
	PeerIP string // allowed source
	OutIP  string // disallowed source ("" = none exists)
	InAddr []byte
	// an IPv4 address just outside the allowed network (differs only in the bits right after a prefix that
	// does not end on a byte boundary); nil = the generic outside address
	NearOut4 []byte
}

var c18Lists = []c18List{
	{"v4-24", []string{"10.0.0.0/24"}, "10.0.0.9", "10.0.0.21", "192.168.7.7", []byte{10, 0, 0, 77}, nil},
	{"v4+v6", []string{"10.0.0.0/24", "fd00::/8"}, "10.0.0.9", "10.0.0.21", "192.168.7.7", []byte{10, 0, 0, 77}, nil},
	{"loopback", []string{"::1/128", "127.0.0.0/8"}, "127.0.0.9", "127.0.0.21", "10.0.0.21", []byte{127, 0, 0, 77}, nil},
	{"all-v4", []string{"0.0.0.0/0"}, "10.0.0.9", "10.0.0.21", "fd00::21", []byte{10, 0, 0, 77}, nil},
	{"all-v6", []string{"::/0"}, "fd00::9", "fd00::21", "10.0.0.21", net.ParseIP("fd00::77"), nil},
	// prefixes that do not end on a byte boundary; the outside addresses differ in the very next bit
	{"v4-23", []string{"10.0.0.0/23"}, "10.0.0.9", "10.0.1.21", "10.0.2.21", []byte{10, 0, 1, 77}, []byte{10, 0, 2, 1}},
	{"v4-13+v6-7", []string{"10.8.0.0/13", "fc00::/7"}, "10.9.0.9", "10.15.0.21", "10.16.0.21", []byte{10, 12, 0, 77}, []byte{10, 16, 0, 1}},
}

var c18AddrClasses = map[string][]byte{
	"out4":       {192, 168, 1, 1},
	"mapped-out": net.ParseIP("192.168.1.1").To16(),
	"out6":       net.ParseIP("2001:db8::1"),
	"in6":        net.ParseIP("fd00::1"),
	"len0":       {},
	"len3":       {10, 0, 0},
	"len5":       {10, 0, 0, 77, 1},
	"len15":      bytes.Repeat([]byte{0}, 15),
	"len17":      append(net.ParseIP("fd00::1"), 1),
	"v4-zero":    {0, 0, 0, 0},
}

var c18ClassOrder = []string{"in", "mapped-in", "out4", "mapped-out", "out6", "in6", "nil", "len0", "len3", "len5", "len15", "len17", "v4-zero"}

type cidrOracle struct {
	prefixes []netip.Prefix
}

func newCidrOracle(cidrs []string) *cidrOracle {
	o := &cidrOracle{}
	for _, c := range cidrs {
		o.prefixes = append(o.prefixes, netip.MustParsePrefix(c).Masked())
	}
	return o
}

func (o *cidrOracle) allowed(b []byte) bool {
	var a netip.Addr
	switch len(b) {
	case 4:
		a = netip.AddrFrom4([4]byte(b))
	case 16:
		a = netip.AddrFrom16([16]byte(b)).Unmap()
	default:
		return false
	}
	for _, p := range o.prefixes {
		if p.Contains(a) {
			return true
		}
	}
	return false
}

func (o *cidrOracle) allowedStr(s string) bool {
	a, err := netip.ParseAddr(s)
	if err != nil {
		return false
	}
	a = a.Unmap()
	for _, p := range o.prefixes {
		if p.Contains(a) {
			return true
		}
	}
	return false
}

type c18Step struct {
	Node    string `json:"node"`
	Class   string `json:"addr_class"`
	Inc     uint32 `json:"inc"`
	Carrier string `json:"carrier"`
	Prior   string `json:"prior"`
}

func (l c18List) addrOf(class string) []byte {
	switch class {
	case "in":
		return l.InAddr
	case "mapped-in":
		if v4 := net.IP(l.InAddr).To4(); v4 != nil {
			return []byte(v4.To16())
		}
		return l.InAddr
	}
	if l.NearOut4 != nil {
		switch class {
		case "out4":
			return l.NearOut4
		case "mapped-out":
			return []byte(net.IP(l.NearOut4).To16())
		}
	}
	return c18AddrClasses[class]
}

func runC18(run *Run, seed int64, l c18List, carriers []string, reclaim time.Duration, claimInc uint32) (out []*c01Result, trace []c18Step) {
	nets, err := memberlist.ParseCIDRs(l.CIDRs)
	if err != nil {
		return []*c01Result{{"C18/harness/cidr", err.Error()}}, nil
	}
	oracle := newCidrOracle(l.CIDRs)
	rig, err := NewRig(RigOpts{Seed: seed, Spec: NodeSpec{Name: "V", IP: l.VIP, Mutate: func(cf *memberlist.Config) {
		cf.ProbeInterval = noProbe
		cf.PushPullInterval = 0
		cf.CIDRsAllowed = nets
		cf.DeadNodeReclaimTime = reclaim
		cf.HandoffQueueDepth = 64
	}}})
	if err != nil {
		return []*c01Result{{"C18/harness/create", err.Error()}}, nil
	}
	defer rig.Close()
	x := rig.AddPeer("x", l.PeerIP, 7946)
	var o *FakePeer
	if l.OutIP != "" {
		o = rig.AddPeer("o", l.OutIP, 7946)
	}
	rig.Introduce(x, 1)
	Settle(time.Millisecond)
	fail := func(key, f string, a ...any) {
		out = append(out, &c01Result{"C18/" + key, fmt.Sprintf(f, a...)})
	}
	if rig.V.Record("x") == nil {
		fail("harness/peer", "allowed peer x (%s) was not admitted under list %v", l.PeerIP, l.CIDRs)
		return
	}
	checkAll := func(where string) bool {
		v := rig.V.ML().VerifDump()
		for _, r := range v.Records {
			if isPlaceholder(&r) {
				continue
			}
			if !oracle.allowed(r.Addr) {
				fail("record-outside/"+where, "record %s holds address %v (len %d) outside every allowed network %v [%s]", r.Name, net.IP(r.Addr), len(r.Addr), l.CIDRs, where)
				return false
			}
		}
		for _, mb := range rig.V.ML().Members() {
			if !oracle.allowed([]byte(mb.Addr)) {
				fail("member-outside/"+where, "Members() lists %s at %v (len %d) outside every allowed network %v [%s]", mb.Name, mb.Addr, len(mb.Addr), l.CIDRs, where)
				return false
			}
		}
		for _, e := range rig.V.Ev.Log() {
			if !oracle.allowedStr(e.Addr) {
				fail("event-outside/"+where, "%s event announced %s at %s outside every allowed network %v [%s]", e.Kind, e.Name, e.Addr, l.CIDRs, where)
				return false
			}
		}
		return true
	}
	sendAlive := func(from *FakePeer, fromAddr string, carrier string, node string, addr []byte, inc uint32) {
		msg := Enc(TAlive, &WAlive{Incarnation: inc, Node: node, Addr: addr, Port: 7946, Meta: []byte("m"), Vsn: DefaultVsn()})
		switch carrier {
		case "compound":
			msg = MakeCompound([][]byte{msg, Enc(TNack, &WNack{SeqNo: 0xfffffff3})})
		case "compress":
			msg = LZWCompress(msg)
		}
		raw := BuildPacket(rig.PCfg, msg, rig.Rng)
		rig.C.Net.Inject(rig.V.EP, fromAddr, raw)
	}
	// while the table is still tiny (the node itself and one peer): disallowed claims through every carrier
	for ei, car := range carriers {
		for _, class := range []string{"out4", "mapped-out", "len3"} {
			addr := l.addrOf(class)
			if oracle.allowed(addr) {
				continue
			}
			name := fmt.Sprintf("early-%d-%s", ei, class)
			switch car {
			case "packet", "compound", "compress":
				sendAlive(x, x.EP.Addr, car, name, addr, claimInc)
			case "pp", "ppjoin":
				entry := WPushNodeState{Name: name, Addr: addr, Port: 7946, Meta: []byte("m"), Incarnation: claimInc, State: SAlive, Vsn: DefaultVsn()}
				if _, _, err := x.PushPull(car == "ppjoin", []WPushNodeState{x.Self(1), entry}, nil); err != nil {
					fail("harness/pp", "%v", err)
					return
				}
			default:
				continue
			}
			Settle(20 * time.Microsecond)
			run.Eval(1)
			run.Cell(l.Name, "early-small-table", class, car)
			if !checkAll("early/" + class + "/" + car) {
				return
			}
		}
	}
	n := 0
	stepN := 0
	priors := []string{"absent", "alive", "suspect", "dead-old", "left"}
	// set up: for each (class, prior, carrier) a dedicated subject
	type cellT struct {
		node, class, prior, carrier string
	}
	var cells []cellT
	for _, class := range c18ClassOrder {
		for _, prior := range priors {
			for _, carrier := range carriers {
				n++
				cells = append(cells, cellT{fmt.Sprintf("s%d", n), class, prior, carrier})
			}
		}
	}
	in := l.InAddr
	mk := func(node string, stages ...string) {
		for _, st := range stages {
			switch st {
			case "alive":
				sendAlive(x, x.EP.Addr, "packet", node, in, 5)
			case "suspect":
				x.Send(Enc(TSuspect, &WSuspect{Incarnation: 5, Node: node, From: "x"}))
			case "dead":
				x.Send(Enc(TDead, &WDead{Incarnation: 5, Node: node, From: "x"}))
			case "left":
				x.Send(Enc(TDead, &WDead{Incarnation: 5, Node: node, From: node}))
			}
			Settle(5 * time.Microsecond)
		}
	}
	for _, c := range cells {
		if c.prior == "dead-old" {
			mk(c.node, "alive", "dead")
		}
	}
	Settle(reclaim + time.Second)
	for _, c := range cells {
		switch c.prior {
		case "alive":
			mk(c.node, "alive")
		case "suspect":
			mk(c.node, "alive", "suspect")
		case "left":
			mk(c.node, "alive", "left")
		}
	}
	if !checkAll("setup") {
		return
	}
	for _, c := range cells {
		addr := l.addrOf(c.class)
		if addr == nil && c.class != "len0" && c.class != "nil" {
			continue
		}
		ok := oracle.allowed(addr)
		// the incarnation is higher than what is held, so only the allowlist can stop the claim
		step := c18Step{c.node, c.class, claimInc, c.carrier, c.prior}
		trace = append(trace, step)
		m := rig.V.ML()
		rb := m.VerifRecordOf(c.node)
		evB, memB, qB := int(rig.V.Ev.Events.Load()), m.NumMembers(), m.VerifNumQueued()
		srcDisallowed := false
		switch c.carrier {
		case "packet", "compound", "compress":
			sendAlive(x, x.EP.Addr, c.carrier, c.node, addr, claimInc)
		case "packet-badsrc":
			if o == nil {
				continue
			}
			srcDisallowed = true
			sendAlive(o, o.EP.Addr, "packet", c.node, addr, claimInc)
		case "compound-badsrc":
			if o == nil {
				continue
			}
			srcDisallowed = true
			sendAlive(o, o.EP.Addr, "compound", c.node, addr, claimInc)
		case "packet-garbagesrc":
			srcDisallowed = true
			sendAlive(x, "not-an-address", "packet", c.node, addr, claimInc)
		case "pp", "ppjoin":
			entry := WPushNodeState{Name: c.node, Addr: addr, Port: 7946, Meta: []byte("m"), Incarnation: claimInc, State: SAlive, Vsn: DefaultVsn()}
			if _, _, err := x.PushPull(c.carrier == "ppjoin", []WPushNodeState{x.Self(1), entry}, nil); err != nil {
				fail("harness/pp", "%v", err)
				return
			}
		case "ppjoin-badsrc":
			if o == nil {
				continue
			}
			entry := WPushNodeState{Name: c.node, Addr: addr, Port: 7946, Meta: []byte("m"), Incarnation: claimInc, State: SAlive, Vsn: DefaultVsn()}
			// the reporter itself sits at a disallowed address: neither it nor a disallowed entry may be admitted
			if _, _, err := o.PushPull(true, []WPushNodeState{o.Self(1), entry}, nil); err != nil {
				fail("harness/pp", "%v", err)
				return
			}
		}
		Settle(20 * time.Microsecond)
		ra := m.VerifRecordOf(c.node)
		evA, memA, qA := int(rig.V.Ev.Events.Load()), m.NumMembers(), m.VerifNumQueued()
		run.Eval(1)
		cls := "allowed"
		if !ok {
			cls = "disallowed"
		}
		run.Cell(l.Name, c.class+"("+cls+")", c.prior, c.carrier)
		where := fmt.Sprintf("%s/%s/%s", c.class, c.prior, c.carrier)
		stepN++
		if ra != nil && !isPlaceholder(ra) && !oracle.allowed(ra.Addr) {
			fail("record-outside/"+where, "record %s holds address %v (len %d) outside every allowed network %v", ra.Name, net.IP(ra.Addr), len(ra.Addr), l.CIDRs)
			return
		}
		if evA != evB || stepN%60 == 0 {
			if !checkAll(where) {
				return
			}
		}
		if isPlaceholder(ra) {
			ra = nil
		}
		if isPlaceholder(rb) {
			rb = nil
		}
		if !ok || srcDisallowed {
			changed := false
			if (rb == nil) != (ra == nil) {
				changed = true
			} else if rb != nil && (rb.Incarnation != ra.Incarnation || rb.State != ra.State || !bytes.Equal(rb.Addr, ra.Addr) || !bytes.Equal(rb.Meta, ra.Meta)) {
				changed = true
			}
			if changed || evA != evB || memA != memB {
				why := "disallowed advertised address"
				if srcDisallowed {
					why = "disallowed/unparsable source address"
				}
				fail("effect/"+c.carrier+"/"+c.prior, "alive claim with %s had an effect: before [%s] after [%s] step %+v", why, recString(rb), recString(ra), step)
				return
			}
			if srcDisallowed && qA > qB {
				fail("effect-queue/"+c.carrier, "alive claim from a disallowed source queued a broadcast: step %+v", step)
				return
			}
		} else {
			// positive control: an allowed address from an allowed source must be able to get in
			if ra != nil && ra.Incarnation == claimInc {
				run.Count("positive_admissions", 1)
			}
		}
	}
	if !checkAll("end") {
		return
	}
	// the hand-off queue is full (the application is busy in its delegate) with announcements from an allowed source
	// when an announcement arrives from a disallowed one: whatever the overflow policy, it must not be admitted on
	// the strength of somebody else's source address
	if o != nil && oracle.allowed(l.InAddr) {
		gate := make(chan struct{})
		rig.V.Del.mu.Lock()
		rig.V.Del.Gate = gate
		rig.V.Del.mu.Unlock()
		inj := func(from *FakePeer, msg []byte) {
			rig.C.Net.Inject(rig.V.EP, from.EP.Addr, BuildPacket(rig.PCfg, msg, rig.Rng))
		}
		inj(x, append([]byte{TUser}, []byte("keeps-the-delegate-busy")...))
		Settle(time.Millisecond)
		for i := 0; i < 64; i++ {
			inj(x, Enc(TAlive, &WAlive{Incarnation: 1, Node: fmt.Sprintf("fill-%02d", i), Addr: append([]byte(nil), l.InAddr...), Port: uint16(7000 + i), Meta: []byte("m"), Vsn: DefaultVsn()}))
		}
		Settle(time.Millisecond)
		for i := 0; i < 4; i++ {
			inj(o, Enc(TAlive, &WAlive{Incarnation: 1, Node: fmt.Sprintf("via-outsider-%d", i), Addr: append([]byte(nil), l.InAddr...), Port: uint16(7100 + i), Meta: []byte("m"), Vsn: DefaultVsn()}))
		}
		Settle(time.Millisecond)
		close(gate)
		Settle(50 * time.Millisecond)
		rig.V.Del.mu.Lock()
		rig.V.Del.Gate = nil
		rig.V.Del.mu.Unlock()
		run.Cell("handoff-full", "alive-from-disallowed-source")
		run.Eval(1)
		for i := 0; i < 4; i++ {
			if r := rig.V.Record(fmt.Sprintf("via-outsider-%d", i)); r != nil && !isPlaceholder(r) {
				fail("effect/handoff-full/badsrc", "an alive announcement that arrived from the disallowed source %s while the hand-off queue was full (64 announcements from an allowed source waiting) was acted on: %s", o.EP.Addr, recString(r))
				return
			}
		}
		if !checkAll("handoff-full") {
			return
		}
	}
	// two large state exchanges in a row: the first admits hundreds of members at an allowed address, the second
	// names outsiders at the same positions of its list. Whatever is rejected from the second must leave the
	// records admitted through the first untouched.
	if outA := l.addrOf("out4"); len(l.InAddr) == 4 && len(outA) == 4 && !oracle.allowed(outA) && oracle.allowed(l.InAddr) {
		const big = 300
		first := []WPushNodeState{x.Self(1)}
		second := []WPushNodeState{x.Self(1)}
		for i := 0; i < big; i++ {
			first = append(first, WPushNodeState{Name: fmt.Sprintf("big-%03d", i), Addr: append([]byte(nil), l.InAddr...), Port: uint16(8000 + i), Incarnation: 1, State: SAlive, Meta: []byte(fmt.Sprintf("meta-%03d", i)), Vsn: DefaultVsn()})
			a := append([]byte(nil), l.InAddr...)
			if i%60 < 5 {
				a = append([]byte(nil), outA...)
			}
			second = append(second, WPushNodeState{Name: fmt.Sprintf("other-%03d", i), Addr: a, Port: uint16(9000 + i), Incarnation: 1, State: SAlive, Meta: []byte(fmt.Sprintf("xxxx-%03d", i)), Vsn: DefaultVsn()})
		}
		if _, _, err := x.PushPull(false, first, nil); err != nil {
			fail("harness/pushpull", "%v", err)
			return
		}
		Settle(time.Millisecond)
		snap := map[string]string{}
		for _, r := range rig.V.ML().VerifDump().Records {
			if strings.HasPrefix(r.Name, "big-") {
				snap[r.Name] = recString(&r)
			}
		}
		_, _, _ = x.PushPull(false, second, nil)
		Settle(time.Millisecond)
		run.Cell("two-large-exchanges", fmt.Sprintf("admitted=%d", len(snap)))
		run.Eval(1)
		if !checkAll("two-large-exchanges") {
			return
		}
		for _, r := range rig.V.ML().VerifDump().Records {
			if was, ok := snap[r.Name]; ok && was != recString(&r) {
				fail("record-rewritten/two-large-exchanges", "a later state exchange that does not mention %s changed its record: was [%s], now [%s]", r.Name, was, recString(&r))
				return
			}
		}
	}
	// the node's own address: the transport starts to report an address outside the allowlist (the host was
	// re-addressed) and the application calls UpdateNode. Whether the node keeps announcing its old address or
	// refuses, it must not list itself, announce itself in an event or gossip itself at the disallowed address.
	for _, class := range []string{"out4", "mapped-out"} {
		addr := l.addrOf(class)
		if oracle.allowed(addr) || len(addr) == 0 {
			continue
		}
		ip := net.IP(append([]byte(nil), addr...))
		rig.V.EP.AdvIP.Store(&ip)
		rig.V.Del.SetMeta([]byte("re-addressed-" + class))
		_ = rig.V.ML().UpdateNode(time.Second)
		Settle(2 * time.Second)
		run.Cell("own-address", class)
		run.Eval(1)
		if !checkAll("own-address-change/" + class) {
			return
		}
		if ln := rig.V.ML().LocalNode(); ln != nil && !oracle.allowed([]byte(ln.Addr)) {
			fail("member-outside/own-address-change/"+class, "LocalNode() reports the node at %v outside every allowed network %v", ln.Addr, l.CIDRs)
			return
		}
		for _, q := range rig.V.ML().VerifQueued() {
			var a WAlive
			if len(q.Msg) > 1 && q.Msg[0] == TAlive && mpDecode(q.Msg[1:], &a) == nil && a.Node == "V" && !oracle.allowed(a.Addr) {
				fail("gossip-outside/own-address-change/"+class, "the node queued an alive message announcing itself at %v outside every allowed network %v", net.IP(a.Addr), l.CIDRs)
				return
			}
		}
		rig.V.EP.AdvIP.Store(nil)
	}
	rig.C.CheckQuiescent()
	for _, p := range rig.C.Problems() {
		out = append(out, &c01Result{p.Key, p.What})
	}
	return
}

func TestC18(t *testing.T) {
	run := NewRun(t, "C18", "exploration",
		"One real node with CIDRsAllowed configured (seven allowlists: v4 /24, v4+v6, loopback, 0.0.0.0/0, ::/0, and two with prefixes that do not end on a byte boundary - 10.0.0.0/23 and 10.8.0.0/13 + fc00::/7 - whose outside addresses differ from the network in the very next bit). For every (address class in {inside, v4-mapped inside, outside v4, v4-mapped outside, outside v6, inside v6, absent (msgpack nil), lengths 0/3/5/15/17, 0.0.0.0} x prior state of the name {absent, alive, suspect, dead past reclaim time, left} x carrier {UDP alive from allowed source, compound, compressed, push/pull, join push/pull, UDP alive / compound from a disallowed source, UDP alive from an unparsable source, join push/pull from a disallowed host}) a higher-incarnation alive claim is injected; after each step every record, every Members() entry and every event so far must carry an address accepted by an independent net/netip predicate, and claims with a disallowed address or (for UDP alive) a disallowed source must leave the snapshot unchanged. Positive control: allowed claims are admitted (counted).")
	defer run.Finish()
	run.Assume("an empty allowlist means allow-all in this code base (pinned by existing tests); the oracle is vacuous there and such configurations are not generated", "the node's own address is inside the allowlist")
	carriersA := []string{"packet", "compound", "compress", "pp", "ppjoin", "packet-badsrc", "compound-badsrc", "packet-garbagesrc", "ppjoin-badsrc"}
	type variant struct {
		inc     uint32
		reclaim time.Duration
	}
	variants := []variant{{9, 5 * time.Second}, {3, 5 * time.Second}}
	if run.Thorough() {
		variants = append(variants, variant{5, 5 * time.Second}, variant{9, 0}, variant{3, 0}, variant{4294967294, 5 * time.Second})
	}
	for vi, vr := range variants {
		for li, l := range c18Lists {
			if vi > 0 && li > 0 && !run.Thorough() {
				continue // quick: the lower-incarnation (reclaim) variant on the first allowlist only
			}
			id := fmt.Sprintf("list/%s/inc%d/reclaim%v", l.Name, vr.inc, vr.reclaim)
			if !run.Replaying() {
				for _, class := range []string{"out4", "mapped-out", "out6", "nil", "len0", "len3", "len5", "len15", "len17"} {
					for _, prior := range []string{"absent", "alive", "suspect", "dead-old", "left"} {
						for _, car := range []string{"packet", "compound", "compress", "pp", "ppjoin"} {
							if l.Name == "v4-24" && vi == 0 {
								run.Require(fmt.Sprintf("%s|%s(disallowed)|%s|%s", l.Name, class, prior, car))
							}
						}
					}
				}
			}
			if !run.Mine(li+vi*7) || !run.Want(id) {
				continue
			}
			run.Journal(id, "")
			var res []*c01Result
			var trace []c18Step
			err := Bubble(t, func() { res, trace = runC18(run, run.Seed()+int64(li)+int64(vi)*100, l, carriersA, vr.reclaim, vr.inc) })
			if err != nil {
				res = append(res, &c01Result{"C18/bubble", err.Error()})
			}
			if len(trace) > 3 && li == 0 {
				run.Sample(map[string]any{"list": l.CIDRs, "steps": trace[:3]})
			}
			for _, r := range res {
				run.Violation(id, r.Key, r.What, map[string]any{"list": l.CIDRs, "steps_done": len(trace)})
			}
		}
	}
	run.Complete()
	if run.Violations() > 0 {
		t.Errorf("%d violation(s)", run.Violations())
	}
}
