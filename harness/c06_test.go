package harness

// C06 — suspicion timeout: Lifeguard bounds and confirmation rules.

import (
	"fmt"
	"math"
	"math/rand"
	"net"
	"runtime"
	"strings"
	"testing"
	"time"

	"github.com/hashicorp/memberlist"
)

// suspicionT is the documented schedule: timeout after i accepted confirmations.
func suspicionT(i, k int, min, max time.Duration) time.Duration {
	if k < 1 {
		return min
	}
	frac := math.Log(float64(i)+1.0) / math.Log(float64(k)+1.0)
	raw := max.Seconds() - frac*(max.Seconds()-min.Seconds())
	t := time.Duration(math.Floor(1000.0*raw)) * time.Millisecond
	if t < min {
		t = min
	}
	return t
}

type confEv struct {
	At   time.Duration `json:"at_ns"` // offset from start
	From string        `json:"from"`
}

type c06script struct {
	K    int           `json:"k"`
	Min  time.Duration `json:"min_ns"`
	Max  time.Duration `json:"max_ns"`
	From string        `json:"accuser"`
	Evs  []confEv      `json:"confirmations"`
}

// expected outcome under the documented rules
func (s c06script) expect() (fire time.Duration, accepted []bool, n int) {
	deadline := suspicionT(0, s.K, s.Min, s.Max)
	seen := map[string]bool{s.From: true}
	accepted = make([]bool, len(s.Evs))
	for i, e := range s.Evs {
		if e.At >= deadline {
			break // fired before this one arrived
		}
		if n >= s.K || seen[e.From] {
			continue
		}
		seen[e.From] = true
		n++
		accepted[i] = true
		d := suspicionT(n, s.K, s.Min, s.Max)
		if d < e.At {
			d = e.At
		}
		if d < deadline {
			deadline = d
		}
	}
	return deadline, accepted, n
}

func genC06(rng *rand.Rand) c06script {
	mins := []time.Duration{100 * time.Millisecond, 400 * time.Millisecond, time.Second, 4 * time.Second, 10 * time.Second}
	s := c06script{
		K:    []int{0, 1, 2, 2, 3, 5, -1}[rng.Intn(7)], // (-1: what a SuspicionMult of 1 yields)
		Min:  mins[rng.Intn(len(mins))],
		From: "acc",
	}
	s.Max = time.Duration(1+rng.Intn(6)) * s.Min
	pool := []string{"acc", "p1", "p2", "p3", "p4", "p5"}
	n := rng.Intn(9)
	var at time.Duration
	for i := 0; i < n; i++ {
		var d time.Duration
		switch rng.Intn(6) {
		case 0:
			d = 0
		case 1:
			d = time.Millisecond
		case 2:
			d = time.Duration(rng.Int63n(int64(s.Min)/2 + 1))
		case 3:
			d = time.Duration(rng.Int63n(int64(s.Max) + 1))
		case 4:
			d = s.Max / 3
		default:
			d = time.Duration(rng.Int63n(int64(s.Max)*2 + 1))
		}
		at += d.Round(time.Millisecond)
		if i > 0 && d == 0 {
			at += time.Millisecond // distinct instants
		}
		s.Evs = append(s.Evs, confEv{at, pool[rng.Intn(len(pool))]})
	}
	// keep every arrival at least 3 ms away from every possible deadline (ties are the timer's choice)
	for i := range s.Evs {
		for j := 0; j <= s.K; j++ {
			d := suspicionT(j, s.K, s.Min, s.Max)
			if diff := s.Evs[i].At - d; diff > -3*time.Millisecond && diff < 3*time.Millisecond {
				s.Evs[i].At = d + 5*time.Millisecond
			}
		}
		if i > 0 && s.Evs[i].At <= s.Evs[i-1].At {
			s.Evs[i].At = s.Evs[i-1].At + time.Millisecond
		}
	}
	return s
}

func runC06Timer(s c06script) (key, what string) {
	fire, accepted, n := s.expect()
	start := time.Now()
	fired := 0
	var firedAt time.Duration
	var firedN int
	su := memberlist.VerifNewSuspicion(s.From, s.K, s.Min, s.Max, func(c int) {
		fired++
		firedAt = time.Since(start)
		firedN = c
	})
	for i, e := range s.Evs {
		if w := e.At - time.Since(start); w > 0 {
			time.Sleep(w)
		}
		Settle(0)
		got := su.Confirm(e.From)
		Settle(0)
		if e.At < fire {
			if got != accepted[i] {
				return "C06/timer/confirm-result", fmt.Sprintf("Confirm(%q) at +%v returned %v, expected %v (k=%d, accuser %q)", e.From, e.At, got, accepted[i], s.K, s.From)
			}
		}
	}
	time.Sleep(s.Max*2 + time.Second)
	Settle(0)
	if fired != 1 {
		return "C06/timer/fire-count", fmt.Sprintf("timeout callback ran %d times", fired)
	}
	if d := firedAt - fire; d < -time.Millisecond || d > time.Millisecond {
		k := "late"
		if d < 0 {
			k = "early"
		}
		return "C06/timer/fire-instant/" + k, fmt.Sprintf("timeout fired at +%v, documented schedule says +%v (k=%d min=%v max=%v, %d accepted confirmations)", firedAt, fire, s.K, s.Min, s.Max, n)
	}
	if firedAt < s.Min || firedAt > s.Max+time.Millisecond {
		return "C06/timer/outside-bounds", fmt.Sprintf("fired at +%v outside [min %v, max %v]", firedAt, s.Min, s.Max)
	}
	if firedN != n {
		return "C06/timer/confirmation-count", fmt.Sprintf("callback reported %d confirmations, expected %d", firedN, n)
	}
	return "", ""
}

// ---- layer 2: end to end on a real node ----

type c06e2e struct {
	Peers           int           `json:"peers"` // responsive fake peers besides the target
	Confs           []confEv      `json:"confirmations"`
	RefuteAt        time.Duration `json:"refute_at_ns,omitempty"` // 0 = none; offset from first suspicion start
	ForeignDeadAt   time.Duration `json:"foreign_dead_at_ns,omitempty"`
	AccuseSelfFirst bool          `json:"accuse_self_first,omitempty"` // raise V's health score before the suspicion starts
	// membership history before the suspicion: "" | rejoin-newaddr | come-and-go | meta-update | addr-conflict
	Prehistory string `json:"prehistory,omitempty"`
	// offsets (from suspicion start) at which claims about the target that are OLDER than what V holds
	// arrive (dead, suspect from a fresh name, alive): they must not change anything
	Noise []time.Duration `json:"stale_noise_at_ns,omitempty"`
	// SuspicionMult (0 = the default 4); 1 makes the number of expected confirmations negative
	Mult int `json:"suspicion_mult,omitempty"`
	// the confirmations carry an incarnation ABOVE the one the node holds for the target (the accusers have seen a
	// refutation the node missed, and the target fell silent after it): they still only confirm
	NewerConfs bool `json:"confirmations_at_newer_incarnation,omitempty"`
	// the target's refutation is processed at the very moment the node's own timer has run out: after the timer's
	// callback has decided to declare the target dead (its log line is the marker) and before it has done so
	RefuteAtExpiry bool `json:"refutation_at_expiry,omitempty"`
}

const c06TInc = 3 // the target's incarnation, so that older claims about it exist

func runC06E2E(run *Run, seed int64, sc c06e2e) (out []*c01Result) {
	fail := func(key, f string, a ...any) {
		out = append(out, &c01Result{"C06/e2e/" + key, fmt.Sprintf(f, a...)})
	}
	rig, err := NewRig(RigOpts{Seed: seed, Spec: NodeSpec{Name: "V", IP: "10.9.9.9", WithAlive: sc.Prehistory == "vetoed-strangers", Mutate: func(cf *memberlist.Config) {
		cf.ProbeInterval = time.Second
		cf.ProbeTimeout = 500 * time.Millisecond
		cf.PushPullInterval = 0
		cf.GossipInterval = 200 * time.Millisecond
		cf.IndirectChecks = 1
		cf.DisableTcpPings = true
		if sc.Mult > 0 {
			cf.SuspicionMult = sc.Mult
		}
	}}})
	if err != nil {
		fail("harness/create", "%v", err)
		return
	}
	defer rig.Close()
	if sc.Prehistory == "vetoed-strangers" {
		// the application admits only its own cluster's names
		rig.V.mu.Lock()
		rig.V.AliveVeto = func(n *memberlist.Node) error {
			if strings.HasPrefix(n.Name, "dc2-") {
				return fmt.Errorf("not one of ours")
			}
			return nil
		}
		rig.V.mu.Unlock()
	}
	var peers []*FakePeer
	for i := 0; i < sc.Peers; i++ {
		p := rig.AddPeer(fmt.Sprintf("p%d", i), fmt.Sprintf("10.9.1.%d", i+1), 7946)
		p.AutoAck = true
		peers = append(peers, p)
		rig.Introduce(p, 1)
	}
	tgt := rig.AddPeer("T", "10.9.2.1", 7946) // never answers
	rig.Introduce(tgt, c06TInc)
	Settle(time.Millisecond)
	switch sc.Prehistory {
	case "rejoin-newaddr":
		// a member leaves and its name comes back from another address
		r := rig.AddPeer("r", "10.9.3.1", 7946)
		r.AutoAck = true
		rig.Introduce(r, 1)
		Settle(time.Millisecond)
		r.Send(Enc(TDead, &WDead{Incarnation: 1, Node: "r", From: "r"}))
		Settle(time.Millisecond)
		r2 := rig.AddPeer("r@new", "10.9.3.2", 7946)
		r2.Name = "r"
		r2.AutoAck = true
		rig.Introduce(r2, 2)
		Settle(time.Millisecond)
		if rec := rig.V.Record("r"); rec == nil || rec.State != memberlist.StateAlive || net.IP(rec.Addr).String() != "10.9.3.2" {
			fail("harness/prehistory", "rejoin from a new address after a leave was not accepted: %s", recString(rec))
			return
		}
	case "come-and-go":
		r := rig.AddPeer("r", "10.9.3.1", 7946)
		rig.Introduce(r, 1)
		Settle(time.Millisecond)
		r.Send(Enc(TDead, &WDead{Incarnation: 1, Node: "r", From: "r"}))
		Settle(time.Millisecond)
	case "meta-update":
		peers[0].Send(Enc(TAlive, &WAlive{Incarnation: 2, Node: "p0", Addr: []byte(peers[0].EP.IP), Port: 7946, Meta: []byte("new-meta"), Vsn: DefaultVsn()}))
		Settle(time.Millisecond)
	case "addr-conflict":
		peers[0].Send(Enc(TAlive, &WAlive{Incarnation: 5, Node: "p0", Addr: []byte{10, 9, 77, 77}, Port: 7946, Vsn: DefaultVsn()}))
		Settle(time.Millisecond)
	case "vetoed-strangers":
		// announcements of names the application's alive delegate refuses keep arriving (another cluster's gossip
		// leaking in): they are never members and must not count as cluster size
		for i := 0; i < 40; i++ {
			peers[0].Send(Enc(TAlive, &WAlive{Incarnation: uint32(1 + i%3), Node: fmt.Sprintf("dc2-%d", i), Addr: []byte{10, 77, 0, byte(i + 1)}, Port: 7946, Vsn: DefaultVsn()}))
		}
		Settle(time.Millisecond)
	}
	run.Cell("e2e-prehistory", sc.Prehistory)
	if sc.AccuseSelfFirst {
		peers[0].Send(Enc(TSuspect, &WSuspect{Incarnation: 1, Node: "V", From: "p0"}))
		Settle(time.Millisecond)
	}
	m := rig.V.ML()
	cf := rig.V.Conf
	var leaveAt time.Time
	rig.V.Ev.mu.Lock()
	rig.V.Ev.OnEvent = func(ev EvRec) {
		if ev.Kind == "leave" && ev.Name == "T" && leaveAt.IsZero() {
			leaveAt = ev.At
		}
	}
	rig.V.Ev.mu.Unlock()
	// wait for the first self-started suspicion; the table size is sampled at every poll because the
	// parameters depend on the size at the moment the suspicion starts (records of departed members
	// are reaped at probe-round boundaries)
	var info memberlist.VerifSuspicionInfo
	found := false
	sizes := func() (n, est int) {
		d := m.VerifDump()
		if d.NumNodes != len(d.Records) {
			fail("size-estimate", "the node's cluster-size estimate is %d but its table holds %d records (prehistory %q)", d.NumNodes, len(d.Records), sc.Prehistory)
		}
		// records of names that were never accepted (placeholders) are not members
		n = 0
		for i := range d.Records {
			if !isPlaceholder(&d.Records[i]) {
				n++
			}
		}
		return n, d.NumNodes
	}
	prevN, _ := sizes()
	curN := prevN
	for i := 0; i < 3000 && !found; i++ {
		Settle(5 * time.Millisecond)
		prevN = curN
		curN, _ = sizes()
		info, found = m.VerifSuspicionOf("T")
	}
	if !found {
		fail("harness/no-suspicion", "target was never suspected")
		return
	}
	params := func(n int) (k int, min, max time.Duration) {
		k = cf.SuspicionMult - 2
		if n-2 < k {
			k = 0
		}
		scale := math.Max(1.0, math.Log10(math.Max(1.0, float64(n))))
		min = time.Duration(cf.SuspicionMult) * time.Duration(scale*1000) * cf.ProbeInterval / 1000
		max = time.Duration(cf.SuspicionMaxTimeoutMult) * min
		return
	}
	// check compares the timer's parameters with those the configuration gives for the table size at
	// the poll before or the poll at which the suspicion was first seen
	check := func(info memberlist.VerifSuspicionInfo, nBefore, nAt int) (k int, min, max time.Duration, ok bool) {
		for _, n := range []int{nAt, nBefore} {
			k, min, max = params(n)
			if info.K == k && info.Min == min && info.Max == max {
				return k, min, max, true
			}
		}
		fail("parameters", "suspicion started with k=%d min=%v max=%v; configuration and cluster size %d give k=%d min=%v max=%v (health score %d)", info.K, info.Min, info.Max, nAt, k, min, max, m.GetHealthScore())
		return k, min, max, false
	}
	k, min, max, ok := check(info, prevN, curN)
	if !ok {
		return
	}
	run.Cell("e2e-start", fmt.Sprintf("k=%d", k), fmt.Sprintf("health=%d", m.GetHealthScore()))
	if sc.Mult > 0 {
		run.Cell("e2e-mult", fmt.Sprint(sc.Mult))
	}
	start := info.Start
	script := c06script{K: k, Min: min, Max: max, From: "V"}
	// deliver confirmations at their offsets (relative to start)
	type action struct {
		at   time.Duration
		kind string
		from string
	}
	var acts []action
	for _, c := range sc.Confs {
		acts = append(acts, action{c.At, "confirm", c.From})
	}
	if sc.RefuteAt > 0 {
		acts = append(acts, action{sc.RefuteAt, "refute", ""})
	}
	if sc.ForeignDeadAt > 0 {
		acts = append(acts, action{sc.ForeignDeadAt, "foreign-dead", ""})
	}
	for i, at := range sc.Noise {
		acts = append(acts, action{at, "noise", fmt.Sprint(i)})
	}
	noise := func(i int) {
		switch i % 4 {
		case 0:
			peers[0].Send(Enc(TDead, &WDead{Incarnation: c06TInc - 1, Node: "T", From: "p0"}))
		case 1:
			peers[0].Send(Enc(TSuspect, &WSuspect{Incarnation: c06TInc - 1, Node: "T", From: fmt.Sprintf("fresh%d", i)}))
		case 2:
			peers[0].Send(Enc(TAlive, &WAlive{Incarnation: c06TInc - 1, Node: "T", Addr: []byte(tgt.EP.IP), Port: 7946, Vsn: DefaultVsn()}))
		case 3:
			peers[0].Send(Enc(TDead, &WDead{Incarnation: c06TInc - 2, Node: "T", From: "T"}))
		}
		run.Count("e2e_stale_claims_during_suspicion", 1)
	}
	for i := range acts {
		for j := i + 1; j < len(acts); j++ {
			if acts[j].at < acts[i].at {
				acts[i], acts[j] = acts[j], acts[i]
			}
		}
	}
	fired := false
	if sc.RefuteAtExpiry {
		rig.V.Log.OnLine = func(text string) {
			if fired || !strings.Contains(text, "Marking T as failed") {
				return
			}
			fired = true
			// the refutation is in the socket now; this goroutine (the timer callback, which holds no lock while it
			// logs) keeps yielding - no virtual time passes - until the listener and the handler have had every
			// chance to process it
			rig.V.EP.Preload(tgt.EP.Addr, BuildPacket(rig.PCfg, Enc(TAlive, &WAlive{Incarnation: c06TInc + 1, Node: "T", Addr: []byte(tgt.EP.IP), Port: 7946, Vsn: DefaultVsn()}), rig.Rng))
			for i := 0; i < 200000; i++ {
				runtime.Gosched()
				if i > 2000 && i%1000 == 0 {
					if r := rig.V.Record("T"); r != nil && r.Incarnation == c06TInc+1 {
						break
					}
				}
			}
		}
	}
	ended := ""
	for _, a := range acts {
		if !leaveAt.IsZero() || fired {
			break
		}
		// (in steps, so that the refutation-at-expiry hook firing in between ends the script at once)
		for w := a.at - time.Since(start); w > 0 && !fired; w = a.at - time.Since(start) {
			if w > 5*time.Millisecond {
				w = 5 * time.Millisecond
			}
			time.Sleep(w)
		}
		Settle(0)
		if !leaveAt.IsZero() || fired {
			break
		}
		switch a.kind {
		case "confirm":
			cinc := uint32(c06TInc)
			if sc.NewerConfs {
				cinc++
			}
			peers[0].Send(Enc(TSuspect, &WSuspect{Incarnation: cinc, Node: "T", From: a.from}))
			script.Evs = append(script.Evs, confEv{time.Since(start), a.from})
		case "noise":
			var ni int
			fmt.Sscan(a.from, &ni)
			noise(ni)
		case "refute":
			peers[0].Send(Enc(TAlive, &WAlive{Incarnation: c06TInc + 1, Node: "T", Addr: []byte(tgt.EP.IP), Port: 7946, Vsn: DefaultVsn()}))
			ended = "refuted"
		case "foreign-dead":
			peers[0].Send(Enc(TDead, &WDead{Incarnation: c06TInc, Node: "T", From: "p0"}))
			ended = "foreign-dead"
		}
		Settle(10 * time.Microsecond)
		if ended != "" {
			break
		}
	}
	if ended == "foreign-dead" {
		run.Cell("e2e-end", "foreign-dead")
		if leaveAt.IsZero() {
			fail("foreign-dead-ignored", "another node's death claim did not end the suspicion")
		}
		return
	}
	if ended == "refuted" {
		run.Cell("e2e-end", "refuted")
		if !leaveAt.IsZero() && !leaveAt.After(start.Add(sc.RefuteAt)) {
			return // died before the refutation arrived; judged below would need the schedule: skip
		}
		rec := rig.V.Record("T")
		if rec == nil || rec.State != memberlist.StateAlive || rec.Incarnation != c06TInc+1 {
			fail("refutation-not-accepted", "refutation at +%v left the target as %s", sc.RefuteAt, recString(rec))
			return
		}
		// the first timer's deadline must not kill the refuted / re-suspected target early
		var second memberlist.VerifSuspicionInfo
		got := false
		noised := 0
		secondBefore, secondAt := 0, 0
		for i := 0; i < 12000 && leaveAt.IsZero(); i++ {
			Settle(5 * time.Millisecond)
			prevN = curN
			curN, _ = sizes()
			if si, ok := m.VerifSuspicionOf("T"); ok && !si.Start.Equal(start) {
				if !got {
					secondBefore, secondAt = prevN, curN
				}
				second, got = si, true
				// claims from before the refutation trickle in during the second suspicion
				if noised < len(sc.Noise) && time.Since(si.Start) > time.Duration(noised+1)*300*time.Millisecond {
					switch noised % 3 {
					case 0:
						peers[0].Send(Enc(TDead, &WDead{Incarnation: c06TInc, Node: "T", From: "p0"}))
					case 1:
						peers[0].Send(Enc(TSuspect, &WSuspect{Incarnation: c06TInc, Node: "T", From: "fresh"}))
					case 2:
						peers[0].Send(Enc(TAlive, &WAlive{Incarnation: c06TInc, Node: "T", Addr: []byte(tgt.EP.IP), Port: 7946, Vsn: DefaultVsn()}))
					}
					noised++
					run.Count("e2e_stale_claims_during_suspicion", 1)
				}
			}
		}
		if leaveAt.IsZero() {
			if got {
				fail("resuspicion/never-declared-dead", "re-suspected at +%v, %d older claims arrived since; %v later (maximum %v) the target is still listed as %s", second.Start.Sub(start), noised, time.Since(second.Start), second.Max, recString(rig.V.Record("T")))
			} else {
				fail("harness/no-death-after-resuspicion", "target still listed %v after the refutation", time.Since(start))
			}
			return
		}
		if !got {
			fail("died-without-suspicion", "target declared dead at +%v after a refutation without a new suspicion", leaveAt.Sub(start))
			return
		}
		k2, min2, max2, ok := check(second, secondBefore, secondAt)
		if !ok {
			return
		}
		run.Cell("e2e-end", "resuspected-then-timer")
		d := leaveAt.Sub(second.Start)
		// no confirmation is delivered during the second suspicion: it must run its full unconfirmed course
		if want := suspicionT(0, k2, min2, max2); d < want-2*time.Millisecond || d > want+2*time.Millisecond {
			fail("resuspicion/off-schedule", "re-suspected at +%v (no confirmations delivered since); declared dead %v later, the schedule says %v (k=%d min=%v max=%v): the previous suspicion's timer was still in effect", second.Start.Sub(start), d, want, k2, min2, max2)
			return
		}
		if d < min2-time.Millisecond {
			fail("resuspicion/too-early", "re-suspected at +%v but declared dead only %v later (minimum %v): an older timer ended the new suspicion", second.Start.Sub(start), d, min2)
		}
		if d > max2+2*time.Millisecond {
			fail("resuspicion/too-late", "re-suspected target declared dead %v after the suspicion started (maximum %v)", d, max2)
		}
		return
	}
	if sc.RefuteAtExpiry {
		for i := 0; i < 20000 && !fired; i++ {
			Settle(5 * time.Millisecond)
		}
		rig.V.Log.OnLine = nil
		if !fired {
			fail("never-declared-dead", "suspicion started %v ago (max %v) and the node's own timer has not run out", time.Since(start), max)
			return
		}
		Settle(time.Millisecond)
		run.Cell("e2e-end", "refuted-at-expiry")
		rec := rig.V.Record("T")
		if rec == nil || rec.Incarnation != c06TInc+1 {
			// the refutation was not processed inside the window (it would have been accepted at any other time): nothing to judge
			run.Count("e2e_refute_at_expiry_not_processed_in_window", 1)
			return
		}
		// (the target may legitimately be under a NEW suspicion already - a probe of it failing at this instant, or an
		// accusation at the new incarnation - but it cannot have been declared dead)
		if rec.State == memberlist.StateDead || rec.State == memberlist.StateLeft || !leaveAt.IsZero() {
			fail("refuted-then-declared-dead", "the target's refutation (incarnation %d) was accepted after the node's timer had run out and before the node acted on it; the node then declared the refuted target dead: %s, leave event %v", c06TInc+1, recString(rec), !leaveAt.IsZero())
			out[len(out)-1].What += fmt.Sprintf(" | node log: %q", rig.V.Log.Tail(14))
		}
		return
	}
	// wait for the node's own timer
	for i := 0; i < 20000 && leaveAt.IsZero(); i++ {
		Settle(5 * time.Millisecond)
	}
	if leaveAt.IsZero() {
		fail("never-declared-dead", "suspicion started %v ago (max %v) and the target is still listed", time.Since(start), max)
		return
	}
	fire, _, n := script.expect()
	d := leaveAt.Sub(start)
	run.Cell("e2e-end", "own-timer", fmt.Sprintf("confirmations=%d", n))
	run.Max("e2e_death_over_max", float64(d)/float64(max))
	if d < min-time.Millisecond {
		fail("below-minimum", "declared dead %v after the suspicion started, minimum is %v", d, min)
		return
	}
	if d > max+2*time.Millisecond {
		fail("above-maximum", "declared dead %v after the suspicion started, maximum is %v", d, max)
		return
	}
	if diff := d - fire; diff < -2*time.Millisecond || diff > 2*time.Millisecond {
		fail("off-schedule", "declared dead at +%v; documented schedule for the delivered confirmations %v gives +%v (k=%d)", d, script.Evs, fire, k)
	}
	return
}

func TestC06(t *testing.T) {
	run := NewRun(t, "C06", "exploration",
		"Layer 1: the real suspicion timer object in virtual time, PRNG scripts of (arrival offset, confirmer) over k in {0,1,2,3,5}, min 0.1-10 s, max 1-6 x min, confirmers from a 6-name pool incl. the accuser and duplicates, arrivals from 0 to beyond max, kept >= 3 ms away from every deadline; oracle = documented schedule T(i)=max(min, floor_ms(max - ln(i+1)/ln(k+1)(max-min))): callback exactly once, at the scheduled instant +-1 ms, inside [min,max], with the accepted count; Confirm's result for every pre-deadline arrival. Layer 2: a real node whose probes of a silent target start a suspicion on its own evidence; k/min/max read from the timer must equal the values derived from configuration and cluster size; confirmations, a refutation followed by re-suspicion, or a foreign death claim are delivered at scripted offsets; the NotifyLeave instant must match the schedule and the bounds. Cell = (k, #accepted, arrival pattern) / (e2e start, e2e end).")
	defer run.Finish()
	run.Assume("virtual time: callbacks run at exact timer instants; arrivals are kept away from deadlines so ties never decide a verdict")
	n := run.Pick(6000, 3000000)
	for i := 0; i < n; i++ {
		if !run.Mine(i) {
			continue
		}
		id := fmt.Sprintf("timer/%d", i)
		if !run.Want(id) {
			continue
		}
		rng := run.RNG(id)
		s := genC06(rng)
		if i%500 == 0 {
			run.Journal(id, "")
		}
		var key, what string
		err := Bubble(t, func() { key, what = runC06Timer(s) })
		if err != nil {
			key, what = "C06/bubble", err.Error()
		}
		run.Eval(1)
		fire, acc, na := s.expect()
		pat := "none"
		for j, e := range s.Evs {
			switch {
			case e.At >= fire:
				pat = "has-late"
			case !acc[j] && e.From == s.From && pat == "none":
				pat = "accuser"
			case !acc[j] && pat == "none":
				pat = "dup-or-overflow"
			}
		}
		run.Cell("timer", fmt.Sprintf("k=%d", s.K), fmt.Sprintf("acc=%d", na), pat)
		if key != "" {
			run.Violation(id, key, what, s)
		}
		if i == 1 {
			run.Sample(s)
		}
	}
	ne := run.Pick(120, 15000)
	for i := 0; i < ne; i++ {
		if !run.Mine(i) {
			continue
		}
		id := fmt.Sprintf("e2e/%d", i)
		if !run.Want(id) {
			continue
		}
		rng := run.RNG(id)
		sc := c06e2e{Peers: []int{1, 3, 4, 6}[rng.Intn(4)], AccuseSelfFirst: rng.Intn(3) == 0}
		pool := []string{"V", "p0", "p1", "p2", "q1", "q1", "q2"}
		nc := rng.Intn(5)
		var at time.Duration
		for j := 0; j < nc; j++ {
			at += time.Duration(100+rng.Intn(6000)) * time.Millisecond
			sc.Confs = append(sc.Confs, confEv{at + 137*time.Microsecond, pool[rng.Intn(len(pool))]})
		}
		switch i % 4 {
		case 1:
			sc.RefuteAt = time.Duration(300+rng.Intn(3000))*time.Millisecond + 211*time.Microsecond
		case 2:
			if rng.Intn(2) == 0 {
				sc.ForeignDeadAt = time.Duration(300+rng.Intn(3000))*time.Millisecond + 311*time.Microsecond
			}
		}
		sc.Prehistory = []string{"", "rejoin-newaddr", "come-and-go", "meta-update", "addr-conflict", "vetoed-strangers"}[rng.Intn(6)]
		if i%5 == 3 {
			sc.Mult = []int{1, 2}[(i/5)%2]
		}
		for j, nn := 0, rng.Intn(4); j < nn; j++ {
			sc.Noise = append(sc.Noise, time.Duration(150+rng.Intn(5000))*time.Millisecond+53*time.Microsecond)
		}
		sc.NewerConfs = rng.Intn(3) == 0
		if i%4 == 0 || i%4 == 3 {
			sc.RefuteAtExpiry = rng.Intn(3) == 0
		}
		run.Journal(id, fmt.Sprintf("%+v", sc))
		var res []*c01Result
		err := Bubble(t, func() { res = runC06E2E(run, run.Seed()*17+int64(i), sc) })
		if err != nil {
			res = append(res, &c01Result{"C06/bubble", err.Error()})
		}
		run.Eval(1)
		for _, r := range res {
			run.Violation(id, r.Key, r.What, sc)
		}
		if i == 1 {
			run.Sample(sc)
		}
	}
	for i := 0; i < run.Pick(24, 2400); i++ {
		id := fmt.Sprintf("hearsay/%d", i)
		if !run.Mine(i) || !run.Want(id) {
			continue
		}
		rng := run.RNG(id)
		nT := 2 + i%3
		peersN := []int{0, 2, 5}[rng.Intn(3)]
		run.Journal(id, fmt.Sprintf("targets=%d peers=%d", nT, peersN))
		var res []*c01Result
		err := Bubble(t, func() { res = runC06Hearsay(run, run.Seed()*83+int64(i), nT, peersN, rng) })
		if err != nil {
			res = append(res, &c01Result{"C06/bubble", err.Error()})
		}
		run.Eval(int64(nT))
		for _, r := range res {
			run.Violation(id, r.Key, r.What, map[string]any{"targets": nT, "peers": peersN})
		}
	}
	for i := 0; i < run.Pick(12, 1200); i++ {
		id := fmt.Sprintf("return/%d", i)
		if !run.Mine(i) || !run.Want(id) {
			continue
		}
		rng := run.RNG(id)
		peersN := []int{1, 3, 4}[i%3]
		at := time.Duration(300+rng.Intn(2500))*time.Millisecond + 73*time.Microsecond
		run.Journal(id, fmt.Sprintf("peers=%d at=%v", peersN, at))
		var res []*c01Result
		err := Bubble(t, func() { res = runC06Return(run, run.Seed()*59+int64(i), peersN, at) })
		if err != nil {
			res = append(res, &c01Result{"C06/bubble", err.Error()})
		}
		for _, r := range res {
			run.Violation(id, r.Key, r.What, map[string]any{"peers": peersN, "return_at_ns": at})
		}
	}
	if !run.Replaying() {
		run.Require("e2e-end|left-and-returned-then-timer|peers=1", "e2e-end|left-and-returned-then-timer|peers=3")
		run.Require("e2e-end|refuted-at-expiry", "hearsay|entries=3")
		run.Require("e2e-end|refuted", "e2e-end|resuspected-then-timer", "e2e-end|foreign-dead", "e2e-prehistory|rejoin-newaddr", "e2e-prehistory|come-and-go", "e2e-prehistory|meta-update", "e2e-prehistory|addr-conflict", "e2e-prehistory|vetoed-strangers")
	}
	run.Complete()
	if run.Violations() > 0 {
		t.Errorf("%d violation(s)", run.Violations())
	}
}

// runC06Return: the suspected peer announces its own departure during the suspicion and its name comes
// straight back from another address at the SAME incarnation (a departed name may do that); it is
// silent there too, so the node suspects it again on its own evidence. The second suspicion must run
// its own full course: the first suspicion's timer, still ticking, must not end it early.
func runC06Return(run *Run, seed int64, peersN int, returnAt time.Duration) (out []*c01Result) {
	fail := func(key, f string, a ...any) {
		out = append(out, &c01Result{"C06/e2e/" + key, fmt.Sprintf(f, a...)})
	}
	rig, err := NewRig(RigOpts{Seed: seed, Spec: NodeSpec{Name: "V", IP: "10.9.9.9", Mutate: func(cf *memberlist.Config) {
		cf.ProbeInterval = time.Second
		cf.ProbeTimeout = 500 * time.Millisecond
		cf.PushPullInterval = 0
		cf.GossipInterval = 200 * time.Millisecond
		cf.IndirectChecks = 1
		cf.DisableTcpPings = true
	}}})
	if err != nil {
		fail("harness/create", "%v", err)
		return
	}
	defer rig.Close()
	var peers []*FakePeer
	for i := 0; i < peersN; i++ {
		p := rig.AddPeer(fmt.Sprintf("p%d", i), fmt.Sprintf("10.9.1.%d", i+1), 7946)
		p.AutoAck = true
		peers = append(peers, p)
		rig.Introduce(p, 1)
	}
	tgt := rig.AddPeer("T", "10.9.2.1", 7946) // never answers
	rig.Introduce(tgt, c06TInc)
	Settle(time.Millisecond)
	m := rig.V.ML()
	cf := rig.V.Conf
	var leaves []time.Time
	rig.V.Ev.mu.Lock()
	rig.V.Ev.OnEvent = func(ev EvRec) {
		if ev.Kind == "leave" && ev.Name == "T" {
			leaves = append(leaves, ev.At)
		}
	}
	rig.V.Ev.mu.Unlock()
	var first memberlist.VerifSuspicionInfo
	found := false
	for i := 0; i < 3000 && !found; i++ {
		Settle(5 * time.Millisecond)
		first, found = m.VerifSuspicionOf("T")
	}
	if !found {
		fail("harness/no-suspicion", "target was never suspected")
		return
	}
	time.Sleep(time.Until(first.Start.Add(returnAt)))
	Settle(0)
	if len(leaves) > 0 {
		return // already dead: nothing to return from
	}
	peers[0].Send(Enc(TDead, &WDead{Incarnation: c06TInc, Node: "T", From: "T"}))
	Settle(time.Millisecond)
	t2 := rig.AddPeer("T@new", "10.9.2.2", 7946) // silent as well
	t2.Name = "T"
	rig.Introduce(t2, c06TInc)
	Settle(time.Millisecond)
	rec := rig.V.Record("T")
	if rec == nil || rec.State != memberlist.StateAlive || rec.Incarnation != c06TInc || net.IP(rec.Addr).String() != "10.9.2.2" {
		fail("harness/return", "the departed name coming back from a new address at the same incarnation was not accepted: %s", recString(rec))
		return
	}
	nLeaves := len(leaves)
	var second memberlist.VerifSuspicionInfo
	got := false
	var nBefore, nAt int
	prevN := len(m.VerifDump().Records)
	for i := 0; i < 16000 && len(leaves) == nLeaves; i++ {
		Settle(5 * time.Millisecond)
		curN := len(m.VerifDump().Records)
		if si, ok := m.VerifSuspicionOf("T"); ok && !si.Start.Equal(first.Start) && !got {
			second, got, nBefore, nAt = si, true, prevN, curN
		}
		prevN = curN
	}
	run.Eval(1)
	run.Cell("e2e-end", "left-and-returned-then-timer", fmt.Sprintf("peers=%d", peersN))
	if len(leaves) == nLeaves {
		fail("never-declared-dead", "the returned target was still listed %v after it came back", time.Since(first.Start))
		return
	}
	died := leaves[len(leaves)-1]
	if !got {
		fail("died-without-suspicion", "the returned target was declared dead at +%v without a new suspicion of its own (the first suspicion began at +0, the departure came at +%v)", died.Sub(first.Start), returnAt)
		return
	}
	var want time.Duration
	ok := false
	for _, n := range []int{nAt, nBefore} {
		k := cf.SuspicionMult - 2
		if n-2 < k {
			k = 0
		}
		scale := math.Max(1.0, math.Log10(math.Max(1.0, float64(n))))
		min := time.Duration(cf.SuspicionMult) * time.Duration(scale*1000) * cf.ProbeInterval / 1000
		max := time.Duration(cf.SuspicionMaxTimeoutMult) * min
		if second.K == k && second.Min == min && second.Max == max {
			want, ok = suspicionT(0, k, min, max), true
		}
	}
	if !ok {
		fail("parameters", "second suspicion started with k=%d min=%v max=%v, not derived from the table size (%d or %d)", second.K, second.Min, second.Max, nBefore, nAt)
		return
	}
	if d := died.Sub(second.Start); d < want-2*time.Millisecond || d > want+2*time.Millisecond {
		fail("resuspicion/off-schedule", "the target left at +%v and came back from another address at the same incarnation; re-suspected at +%v with no confirmations, it was declared dead %v later, the schedule says %v (k=%d min=%v max=%v): the first suspicion's timer was still in effect", returnAt, second.Start.Sub(first.Start), d, want, second.K, second.Min, second.Max)
	}
	return
}

// runC06Hearsay: one state exchange reports several members the node holds alive as suspect or dead. Each report
// only starts a local suspicion (hearsay never kills); every one of these suspicions is the node's own and must
// run its course: with nobody confirming or refuting, each target is declared dead exactly at the unconfirmed
// deadline of its own timer - all of them, not only the last one reported.
func runC06Hearsay(run *Run, seed int64, nT, peersN int, rng *rand.Rand) (out []*c01Result) {
	fail := func(key, f string, a ...any) {
		out = append(out, &c01Result{"C06/hearsay/" + key, fmt.Sprintf(f, a...)})
	}
	rig, err := NewRig(RigOpts{Seed: seed, Spec: NodeSpec{Name: "V", IP: "10.9.9.9", Mutate: func(cf *memberlist.Config) {
		cf.ProbeInterval = time.Second
		cf.ProbeTimeout = 500 * time.Millisecond
		cf.PushPullInterval = 0
		cf.GossipInterval = 200 * time.Millisecond
		cf.IndirectChecks = 0
		cf.DisableTcpPings = true
	}}})
	if err != nil {
		fail("harness/create", "%v", err)
		return
	}
	defer rig.Close()
	x := rig.AddPeer("x", "10.9.1.1", 7946)
	x.AutoAck = true
	rig.Introduce(x, 1)
	for i := 0; i < peersN; i++ {
		p := rig.AddPeer(fmt.Sprintf("p%d", i), fmt.Sprintf("10.9.1.%d", i+2), 7946)
		p.AutoAck = true
		rig.Introduce(p, 1)
	}
	var tg []*FakePeer
	for i := 0; i < nT; i++ {
		tp := rig.AddPeer(fmt.Sprintf("T%d", i), fmt.Sprintf("10.9.2.%d", i+1), 7946)
		tp.AutoAck = true // they answer probes (the node has no evidence of its own); they just never hear of the accusation
		tg = append(tg, tp)
		rig.Introduce(tp, 2)
	}
	Settle(time.Millisecond)
	leaves := map[string]time.Time{}
	rig.V.Ev.mu.Lock()
	rig.V.Ev.OnEvent = func(ev EvRec) {
		if ev.Kind == "leave" {
			if _, ok := leaves[ev.Name]; !ok {
				leaves[ev.Name] = ev.At
			}
		}
	}
	rig.V.Ev.mu.Unlock()
	nodes := []WPushNodeState{x.Self(1)}
	for i, tp := range tg {
		st := SDead
		if (i+int(seed))%2 == 0 {
			st = SSuspect
		}
		nodes = append(nodes, WPushNodeState{Name: tp.Name, Addr: []byte(tp.EP.IP), Port: 7946, Incarnation: 2, State: st, Vsn: DefaultVsn()})
	}
	// the fake targets must not see (and so never refute) the accusation: they are scripted peers that only ack
	if _, _, err := x.PushPull(false, nodes, nil); err != nil {
		fail("harness/pushpull", "%v", err)
		return
	}
	Settle(time.Millisecond)
	m := rig.V.ML()
	type st struct {
		info memberlist.VerifSuspicionInfo
	}
	started := map[string]memberlist.VerifSuspicionInfo{}
	for _, tp := range tg {
		si, ok := m.VerifSuspicionOf(tp.Name)
		if !ok {
			fail("not-suspected", "a state exchange reported %s as suspect/dead; no local suspicion was started (record %s)", tp.Name, recString(rig.V.Record(tp.Name)))
			return
		}
		if rec := rig.V.Record(tp.Name); rec == nil || rec.State != memberlist.StateSuspect {
			fail("killed-by-hearsay", "a state exchange reported %s as suspect/dead and the node holds it as %s", tp.Name, recString(rec))
			return
		}
		started[tp.Name] = si
	}
	run.Cell("hearsay", fmt.Sprintf("entries=%d", nT))
	var maxWait time.Duration
	for _, si := range started {
		if si.Max > maxWait {
			maxWait = si.Max
		}
	}
	for w := time.Duration(0); w < maxWait+time.Second; w += 50 * time.Millisecond {
		Settle(50 * time.Millisecond)
	}
	for _, tp := range tg {
		si := started[tp.Name]
		want := suspicionT(0, si.K, si.Min, si.Max)
		at, ok := leaves[tp.Name]
		if !ok {
			fail("never-declared-dead", "%d members were reported suspect/dead in one state exchange; the suspicion of %s started then (k=%d min=%v max=%v) and %v later it is still listed as %s (declared dead so far: %v)", nT, tp.Name, si.K, si.Min, si.Max, time.Since(si.Start), recString(rig.V.Record(tp.Name)), len(leaves))
			return
		}
		if d := at.Sub(si.Start); d < want-2*time.Millisecond || d > want+2*time.Millisecond {
			fail("off-schedule", "suspicion of %s (started by a state exchange, nobody confirmed): declared dead %v after it started, the schedule says %v (k=%d min=%v max=%v)", tp.Name, d, want, si.K, si.Min, si.Max)
			return
		}
	}
	rig.C.CheckQuiescent()
	for _, p := range rig.C.Problems() {
		out = append(out, &c01Result{p.Key, p.What})
	}
	return
}
