package harness

import (
	"fmt"
	"runtime"
	"strings"
	"testing"
	"testing/synctest"
	"time"
)

// Bubble runs f inside a synctest bubble. A panic raised by the bubble (f's
// own panic, or synctest's deadlock report when goroutines remain blocked
// after f returned) is returned as an error instead of killing the process.
func Bubble(t *testing.T, f func()) (err error) {
	defer func() {
		if e := recover(); e != nil {
			err = fmt.Errorf("%v", e)
			if strings.Contains(err.Error(), "deadlock") {
				// the goroutines that were left behind are still there: name them
				var where []string
				for _, g := range blockedBubbleGoroutines() {
					where = append(where, g)
				}
				if len(where) > 0 {
					err = fmt.Errorf("%v; left behind: %s", e, strings.Join(where, " || "))
				}
			}
		}
	}()
	synctest.Test(t, func(t *testing.T) { f() })
	return nil
}

// blockedBubbleGoroutines summarises (top frames) the goroutines that are durably blocked inside a bubble.
func blockedBubbleGoroutines() []string {
	buf := make([]byte, 1<<22)
	buf = buf[:runtime.Stack(buf, true)]
	var out []string
	for i, g := range strings.Split(string(buf), "\n\n") {
		if i == 0 || !strings.Contains(g, "(durable), synctest bubble") && !strings.Contains(g, "synctest bubble") {
			continue
		}
		lines := strings.Split(g, "\n")
		var fr []string
		for _, l := range lines[1:] {
			if strings.HasPrefix(l, "\t") && len(fr) > 0 && len(fr) < 4 {
				// file:line of the frame just named
				l = strings.TrimSpace(l)
				if k := strings.Index(l, " +0x"); k > 0 {
					l = l[:k]
				}
				fr[len(fr)-1] += "@" + l[strings.LastIndex(l, "/")+1:]
				continue
			}
			if !strings.HasPrefix(l, "\t") && len(fr) < 6 {
				if k := strings.LastIndex(l, "("); k > 0 {
					l = l[:k]
				}
				fr = append(fr, l[strings.LastIndex(l, "/")+1:])
			}
		}
		out = append(out, lines[0]+" "+strings.Join(fr, " < "))
		if len(out) >= 12 {
			break
		}
	}
	return out
}

// Settle lets virtual time pass and returns at a quiescent point.
func Settle(d time.Duration) {
	Heartbeat() // (a scenario that keeps reaching quiescent points is making progress, however slow the machine)
	if d > 0 {
		time.Sleep(d)
	}
	synctest.Wait()
}

// Drain closes the cluster and lets every timer-bound goroutine finish.
// It returns the memberlist goroutines that are still alive afterwards.
func (c *Cluster) Drain() []string {
	c.Close()
	time.Sleep(2 * time.Minute)
	synctest.Wait()
	return MemberlistGoroutines()
}

// MemberlistGoroutines returns the stacks of goroutines (other than the
// caller) that have a frame in package memberlist.
func MemberlistGoroutines() []string {
	buf := make([]byte, 1<<20)
	for {
		n := runtime.Stack(buf, true)
		if n < len(buf) {
			buf = buf[:n]
			break
		}
		buf = make([]byte, 2*len(buf))
	}
	var out []string
	for i, g := range strings.Split(string(buf), "\n\n") {
		if i == 0 {
			continue // the caller
		}
		if strings.Contains(g, "github.com/hashicorp/memberlist.") {
			out = append(out, g)
		}
	}
	return out
}

// noProbe is a probe interval beyond any scenario horizon (the thorough tiers of the
// hostile-input checks run for hours of virtual time). It must stay below ~290 h: memberlist
// computes the suspicion timeout as mult * (scale*1000) * interval / 1000 in int64 nanoseconds.
const noProbe = 100 * time.Hour
