package harness

// Verdict / evidence plumbing shared by all checks. A check process writes a
// "part" file; run.sh aggregates the parts of all child processes into
// /verif/evidence/<id>.json and prints VIOLATION / KNOWN-FINDING lines.

import (
	"encoding/json"
	"fmt"
	"hash/fnv"
	"math/rand"
	"os"
	"path/filepath"
	"runtime"
	"sort"
	"strconv"
	"strings"
	"sync"
	"testing"
	"time"
)

type Violation struct {
	Key    string `json:"key"`
	What   string `json:"what"`
	Replay string `json:"replay"`
}

type Part struct {
	Property    string             `json:"property"`
	Tier        string             `json:"tier"`
	Seed        int64              `json:"seed"`
	Child       int                `json:"child"`
	Level       string             `json:"level"`
	Rule        string             `json:"rule"`
	Evaluations int64              `json:"evaluations"`
	Cells       map[string]int64   `json:"cells"`
	Required    []string           `json:"required_cells"`
	Counters    map[string]int64   `json:"counters"`
	Maxima      map[string]float64 `json:"maxima"`
	Samples     []any              `json:"samples"`
	Violations  []Violation        `json:"violations"`
	Assumptions []string           `json:"assumptions"`
	Notes       []string           `json:"notes"`
	Exhaustive  bool               `json:"exhaustive,omitempty"`
	WallS       float64            `json:"wall_s"`
	Done        bool               `json:"done"`
}

// Run is the per-process recorder.
type Run struct {
	mu         sync.Mutex
	p          Part
	start      time.Time
	outDir     string
	journal    *os.File
	nViol      int
	maxSamples int
	only       string // VERIF_CASE: run only this case id
	completed  bool
	t          *testing.T
}

func envInt(name string, def int64) int64 {
	if s := os.Getenv(name); s != "" {
		if v, err := strconv.ParseInt(s, 10, 64); err == nil {
			return v
		}
	}
	return def
}

// NewRun reads VERIF_* from the environment.
func NewRun(t *testing.T, property, level, rule string) *Run {
	tier := os.Getenv("VERIF_TIER")
	if tier != "thorough" {
		tier = "quick"
	}
	out := os.Getenv("VERIF_OUT")
	if out == "" {
		out = filepath.Join(os.TempDir(), "verif-out")
	}
	r := &Run{
		start:      time.Now(),
		outDir:     out,
		maxSamples: 6,
		only:       os.Getenv("VERIF_CASE"),
		t:          t,
	}
	r.p = Part{
		Property: property, Tier: tier, Seed: envInt("VERIF_SEED", 1),
		Child: int(envInt("VERIF_CHILD", 0)), Level: level, Rule: rule,
		Cells: map[string]int64{}, Counters: map[string]int64{}, Maxima: map[string]float64{},
	}
	_ = os.MkdirAll(filepath.Join(out, "replay"), 0o755)
	_ = os.MkdirAll(filepath.Join(out, "parts"), 0o755)
	jn := filepath.Join(out, "parts", fmt.Sprintf("%s-%d.journal", property, r.p.Child))
	r.journal, _ = os.Create(jn)
	r.WatchStalls()
	return r
}

func (r *Run) Tier() string   { return r.p.Tier }
func (r *Run) Thorough() bool { return r.p.Tier == "thorough" }
func (r *Run) Seed() int64    { return r.p.Seed }
func (r *Run) Child() int     { return r.p.Child }
func (r *Run) Children() int  { return int(envInt("VERIF_CHILDREN", 1)) }

// Pick returns q in the quick tier and th in the thorough tier.
func (r *Run) Pick(q, th int) int {
	if r.Thorough() {
		return th
	}
	return q
}

// Mine reports whether case index i belongs to this child process.
func (r *Run) Mine(i int) bool {
	n := r.Children()
	return n <= 1 || i%n == r.Child()
}

// Want reports whether the case with this id should run (replay filter).
func (r *Run) Want(caseID string) bool {
	return r.only == "" || r.only == caseID
}

// Replaying reports whether a single case was requested.
func (r *Run) Replaying() bool { return r.only != "" }

// RNG derives a deterministic PRNG for a case.
func (r *Run) RNG(caseID string) *rand.Rand {
	h := fnv.New64a()
	fmt.Fprintf(h, "%s|%d|%s", r.p.Property, r.p.Seed, caseID)
	return rand.New(rand.NewSource(int64(h.Sum64())))
}

// Journal notes the case about to run, so that a process crash can be
// attributed (the last journal line is the replay handle).
func (r *Run) Journal(caseID string, detail string) {
	SetCase(caseID)
	if r.journal != nil {
		fmt.Fprintf(r.journal, "%s\t%s\n", caseID, detail)
	}
}

func (r *Run) Eval(n int64) {
	Heartbeat()
	r.mu.Lock()
	r.p.Evaluations += n
	r.mu.Unlock()
}

func (r *Run) Cell(parts ...any) {
	s := make([]string, len(parts))
	for i, p := range parts {
		s[i] = fmt.Sprint(p)
	}
	k := strings.Join(s, "|")
	r.mu.Lock()
	r.p.Cells[k]++
	r.mu.Unlock()
}

func (r *Run) Require(cells ...string) {
	r.mu.Lock()
	r.p.Required = append(r.p.Required, cells...)
	r.mu.Unlock()
}

func (r *Run) Count(name string, d int64) {
	r.mu.Lock()
	r.p.Counters[name] += d
	r.mu.Unlock()
}

func (r *Run) Max(name string, v float64) {
	r.mu.Lock()
	if cur, ok := r.p.Maxima[name]; !ok || v > cur {
		r.p.Maxima[name] = v
	}
	r.mu.Unlock()
}

func (r *Run) Sample(v any) {
	r.mu.Lock()
	if len(r.p.Samples) < r.maxSamples {
		r.p.Samples = append(r.p.Samples, v)
	}
	r.mu.Unlock()
}

func (r *Run) Assume(s ...string) {
	r.mu.Lock()
	r.p.Assumptions = append(r.p.Assumptions, s...)
	r.mu.Unlock()
}

func (r *Run) Note(format string, a ...any) {
	r.mu.Lock()
	if len(r.p.Notes) < 40 {
		r.p.Notes = append(r.p.Notes, fmt.Sprintf(format, a...))
	}
	r.mu.Unlock()
}

func (r *Run) SetExhaustive(b bool) { r.p.Exhaustive = b }

// Violations returns how many violations were recorded so far.
func (r *Run) Violations() int {
	r.mu.Lock()
	defer r.mu.Unlock()
	return r.nViol
}

// Violation records a violation with its witness; key is the stable
// classifier output matched against known_findings.json.
func (r *Run) Violation(caseID, key, what string, witness any) {
	r.mu.Lock()
	r.nViol++
	n := r.nViol
	// keep at most a handful of witnesses per key
	same := 0
	for _, v := range r.p.Violations {
		if v.Key == key {
			same++
		}
	}
	if same >= 5 {
		r.p.Counters["violations_suppressed_same_key"]++
		r.mu.Unlock()
		return
	}
	name := fmt.Sprintf("%s-s%d-c%d-%d.json", r.p.Property, r.p.Seed, r.p.Child, n)
	path := filepath.Join(r.outDir, "replay", name)
	r.p.Violations = append(r.p.Violations, Violation{Key: key, What: what, Replay: path})
	r.mu.Unlock()
	doc := map[string]any{
		"property": r.p.Property, "seed": r.p.Seed, "tier": r.p.Tier,
		"case": caseID, "key": key, "what": what, "witness": witness,
	}
	b, err := json.MarshalIndent(doc, "", " ")
	if err != nil {
		b, _ = json.Marshal(map[string]any{"property": r.p.Property, "seed": r.p.Seed, "tier": r.p.Tier,
			"case": caseID, "key": key, "what": what, "witness": fmt.Sprintf("%+v", witness)})
	}
	_ = os.WriteFile(path, b, 0o644)
	if r.t != nil {
		r.t.Logf("violation key=%s case=%s: %s", key, caseID, what)
	}
}

// Finish writes the part file.
func (r *Run) Finish() {
	r.mu.Lock()
	defer r.mu.Unlock()
	r.p.WallS = time.Since(r.start).Seconds()
	r.p.Done = r.completed
	sort.Strings(r.p.Required)
	b, _ := json.MarshalIndent(&r.p, "", " ")
	path := filepath.Join(r.outDir, "parts", fmt.Sprintf("%s-%d.json", r.p.Property, r.p.Child))
	if err := os.WriteFile(path, b, 0o644); err != nil && r.t != nil {
		r.t.Fatalf("cannot write part file: %v", err)
	}
	if r.journal != nil {
		r.journal.Close()
	}
}

// Guard runs f and turns a panic on the calling goroutine into a violation.
func (r *Run) Guard(caseID, key string, witness any, f func()) (panicked bool) {
	defer func() {
		if e := recover(); e != nil {
			panicked = true
			r.Violation(caseID, key, fmt.Sprintf("panic: %v", e), witness)
		}
	}()
	f()
	return false
}

// Complete marks that the check ran all its planned cases (called as the last
// statement of the test function; an aborted test leaves it unset and the
// aggregator then treats the child as having no verdict).
func (r *Run) Complete() {
	r.mu.Lock()
	r.completed = true
	r.mu.Unlock()
}

// ---- stall detector ----
// Checks run in virtual time and normally finish a poll in milliseconds. If no
// heartbeat arrives for stallAfter of REAL time the process is wedged; the
// goroutine dump then decides: goroutines of the code under test parked on a
// mutex for minutes are a deadlock (violation), anything else is inconclusive.

var (
	hbMu    sync.Mutex
	hbCount int64 // bumped by Heartbeat (called on the fake clock inside bubbles, so no timestamps here)
	hbRun   *Run
	hbCase  string
	hbOnce  sync.Once
)

const stallAfter = 90 * time.Second

// Heartbeat signals progress.
func Heartbeat() {
	hbMu.Lock()
	hbCount++
	hbMu.Unlock()
}

// WatchStalls arms the detector for this run (call outside any bubble).
func (r *Run) WatchStalls() {
	hbMu.Lock()
	hbRun = r
	hbCount++
	hbMu.Unlock()
	hbOnce.Do(func() {
		go func() { // outside any bubble: real time
			var lastCount int64 = -1
			lastChange := time.Now()
			for {
				time.Sleep(5 * time.Second)
				hbMu.Lock()
				cnt := hbCount
				run := hbRun
				cs := hbCase
				hbMu.Unlock()
				if cnt != lastCount {
					lastCount, lastChange = cnt, time.Now()
				}
				idle := time.Since(lastChange)
				if run == nil || idle < stallAfter {
					continue
				}
				buf := make([]byte, 8<<20)
				buf = buf[:runtime.Stack(buf, true)]
				var locked []string
				for _, g := range strings.Split(string(buf), "\n\n") {
					head, _, _ := strings.Cut(g, "\n")
					if strings.Contains(g, "github.com/hashicorp/memberlist.") &&
						(strings.Contains(head, "sync.Mutex.Lock") || strings.Contains(head, "sync.RWMutex")) && strings.Contains(head, "minutes") {
						if len(g) > 1500 {
							g = g[:1500]
						}
						locked = append(locked, g)
					}
				}
				if len(locked) > 0 {
					run.Violation(cs, run.p.Property+"/deadlock", fmt.Sprintf("no progress for %v of real time; %d goroutine(s) of the code under test have been parked on a mutex for minutes (deadlock)", idle.Round(time.Second), len(locked)), map[string]any{"goroutines": locked})
				} else {
					run.Note("stall: no progress for %v but no mutex-parked memberlist goroutine (inconclusive)", idle)
				}
				run.Finish()
				os.Exit(3)
			}
		}()
	})
}

// SetCase records the case currently running (for stall reports).
func SetCase(id string) {
	hbMu.Lock()
	hbCase = id
	hbCount++
	hbMu.Unlock()
}
