package harness

// E1 — in-memory network for real Memberlist instances. Designed to run inside
// a testing/synctest bubble (all timers are on the fake clock) but has no
// dependency on it, so the same transport also works in real time.

import (
	"errors"
	"fmt"
	"io"
	"math/rand"
	"net"
	"os"
	"sync"
	"sync/atomic"
	"syscall"
	"time"

	"github.com/hashicorp/memberlist"
)

// Fate is the network's decision for one datagram.
type Fate struct {
	Drop   bool
	Copies int           // extra duplicates (0 = deliver once)
	Delay  time.Duration // base one-way latency
	Jitter time.Duration // each copy gets Delay + [0,Jitter)
	Late   time.Duration // > 0: one more copy is delivered this much later (a stale duplicate)
}

// PacketEvent is one datagram as handed to the innermost transport.
type PacketEvent struct {
	At      time.Time
	From    string // ip:port
	To      string // ip:port
	ToName  string
	Buf     []byte
	Dropped bool
	NoRoute bool
	Closed  bool // sender transport already shut down
}

// StreamEvent is one Write on a simulated connection.
type StreamEvent struct {
	At     time.Time
	ConnID int
	From   string
	To     string
	Dialer bool // written by the dialing side
	Buf    []byte
}

// Net is the simulated network.
type Net struct {
	mu            sync.Mutex
	eps           map[string]*Endpoint // by ip:port
	rng           *rand.Rand
	Policy        func(n *Net, from, to string, buf []byte) Fate // nil = deliver with DefaultDelay
	StreamLat     func(from, to string) time.Duration            // nil = 0
	StreamCut     func(c *Conn, dialerSide bool) int64           // -1 = no cut; called at dial time per direction
	Distinct      bool                                           // force distinct delivery instants per destination
	lastDeliv     map[string]time.Time
	blocked       map[[2]string]bool // directed pair blocked (partition)
	udpBlocked    map[[2]string]bool // datagrams only (streams still connect)
	unreach       map[string]bool    // destination has no route: the local stack refuses sends/dials with an error
	packets       []*PacketEvent
	streams       []*StreamEvent
	OnPacket      []func(ev *PacketEvent)
	OnDeliver     []func(to string, ev *PacketEvent)
	OnStream      []func(ev *StreamEvent)
	conns         []*Conn
	connSeq       int
	KeepTrace     bool
	DefaultDelay  time.Duration
	StreamWindow  int64         // if > 0: a stream write blocks while this many bytes are unread by the peer (bounded socket buffers)
	DialFailDelay time.Duration // how long a dial to an unreachable address takes (0 = caller's timeout)
}

func NewNet(seed int64) *Net {
	return &Net{
		eps:          map[string]*Endpoint{},
		rng:          rand.New(rand.NewSource(seed)),
		lastDeliv:    map[string]time.Time{},
		blocked:      map[[2]string]bool{},
		udpBlocked:   map[[2]string]bool{},
		Distinct:     true,
		KeepTrace:    true,
		DefaultDelay: 200 * time.Microsecond,
	}
}

// Rand draws from the network PRNG under its lock.
func (n *Net) Rand(f func(r *rand.Rand)) {
	n.mu.Lock()
	defer n.mu.Unlock()
	f(n.rng)
}

func (n *Net) Intn(k int) int {
	n.mu.Lock()
	defer n.mu.Unlock()
	return n.rng.Intn(k)
}

func (n *Net) Float() float64 {
	n.mu.Lock()
	defer n.mu.Unlock()
	return n.rng.Float64()
}

// Block / Unblock a directed pair of addresses.
func (n *Net) Block(from, to string, on bool) {
	n.mu.Lock()
	defer n.mu.Unlock()
	if on {
		n.blocked[[2]string{from, to}] = true
	} else {
		delete(n.blocked, [2]string{from, to})
	}
}

// BlockUDP drops datagrams (only) between a directed pair.
func (n *Net) BlockUDP(from, to string, on bool) {
	n.mu.Lock()
	defer n.mu.Unlock()
	if on {
		n.udpBlocked[[2]string{from, to}] = true
	} else {
		delete(n.udpBlocked, [2]string{from, to})
	}
}

func (n *Net) IsBlocked(from, to string) bool {
	n.mu.Lock()
	defer n.mu.Unlock()
	return n.blocked[[2]string{from, to}]
}

// SetUnreachable makes every send or dial towards addr fail locally with ENETUNREACH (as when the
// route to a crashed host is withdrawn), instead of vanishing silently.
func (n *Net) SetUnreachable(addr string, on bool) {
	n.mu.Lock()
	defer n.mu.Unlock()
	if n.unreach == nil {
		n.unreach = map[string]bool{}
	}
	if on {
		n.unreach[addr] = true
	} else {
		delete(n.unreach, addr)
	}
}

func (n *Net) ClearBlocks() {
	n.mu.Lock()
	defer n.mu.Unlock()
	n.blocked = map[[2]string]bool{}
}

// Packets returns a snapshot of the packet trace.
func (n *Net) Packets() []*PacketEvent {
	n.mu.Lock()
	defer n.mu.Unlock()
	return append([]*PacketEvent(nil), n.packets...)
}

func (n *Net) Streams() []*StreamEvent {
	n.mu.Lock()
	defer n.mu.Unlock()
	return append([]*StreamEvent(nil), n.streams...)
}

func (n *Net) Conns() []*Conn {
	n.mu.Lock()
	defer n.mu.Unlock()
	return append([]*Conn(nil), n.conns...)
}

// Endpoint is one node's transport (implements memberlist.NodeAwareTransport).
type Endpoint struct {
	net      *Net
	IP       net.IP
	Port     int
	Addr     string
	Name     string
	packetCh chan *memberlist.Packet
	streamCh chan net.Conn
	closed   atomic.Bool // Shutdown called by the owner
	dead     atomic.Bool // crashed: black hole
	hung     atomic.Bool // hung process: accepts connections, never reads
	// counters
	WritesOK     atomic.Int64
	WritesClosed atomic.Int64 // attempts after Shutdown
	DialsClosed  atomic.Int64
	DroppedFull  atomic.Int64
	WriteErr     func(buf []byte, to memberlist.Address) error // fault injection: returned instead of sending
	ShutdownGate chan struct{}                                 // if set, Shutdown blocks until it is closed
	OnAdvertise  func(call int)                                // if set, called on every FinalAdvertiseAddr (1 = first) before it answers: working out the address may take time
	advCalls     atomic.Int64
	AdvIP        atomic.Pointer[net.IP] // if set, what FinalAdvertiseAddr reports from now on (the host was given another address)
	admit        sync.RWMutex
}

var _ memberlist.NodeAwareTransport = (*Endpoint)(nil)

// NewEndpoint registers an address.
func (n *Net) NewEndpoint(name, ip string, port int) *Endpoint {
	ep := &Endpoint{
		net: n, IP: net.ParseIP(ip), Port: port, Name: name,
		Addr:     net.JoinHostPort(ip, fmt.Sprint(port)),
		packetCh: make(chan *memberlist.Packet, 8192),
		streamCh: make(chan net.Conn, 1024),
	}
	if v4 := ep.IP.To4(); v4 != nil {
		ep.IP = v4
	}
	n.mu.Lock()
	n.eps[ep.Addr] = ep
	n.mu.Unlock()
	return ep
}

// Lookup returns the endpoint currently registered for an address.
func (n *Net) Lookup(addr string) *Endpoint {
	n.mu.Lock()
	defer n.mu.Unlock()
	return n.eps[addr]
}

func (e *Endpoint) FinalAdvertiseAddr(string, int) (net.IP, int, error) {
	k := int(e.advCalls.Add(1))
	if f := e.OnAdvertise; f != nil {
		f(k)
	}
	if ip := e.AdvIP.Load(); ip != nil {
		return *ip, e.Port, nil
	}
	return e.IP, e.Port, nil
}

func (e *Endpoint) PacketCh() <-chan *memberlist.Packet { return e.packetCh }
func (e *Endpoint) StreamCh() <-chan net.Conn           { return e.streamCh }

func (e *Endpoint) Shutdown() error {
	if g := e.ShutdownGate; g != nil {
		<-g // tearing sockets down takes time; until it is done the transport still works
	}
	// admission of a datagram and closing are mutually exclusive: once Shutdown has returned
	// no write can have been admitted "just before"
	e.admit.Lock()
	e.closed.Store(true)
	e.admit.Unlock()
	return nil
}

// Crash turns the endpoint into a black hole (no RST, no replies).
func (e *Endpoint) Crash() { e.dead.Store(true) }

// Hang models a hung process: datagrams vanish, TCP connections are still
// accepted by the kernel but never read or answered.
func (e *Endpoint) Hang()        { e.hung.Store(true) }
func (e *Endpoint) IsDown() bool { return e.dead.Load() || e.closed.Load() || e.hung.Load() }

func (e *Endpoint) WriteTo(b []byte, addr string) (time.Time, error) {
	return e.WriteToAddress(b, memberlist.Address{Addr: addr})
}

type simAddr struct{ s string }

func (a simAddr) Network() string { return "udp" }
func (a simAddr) String() string  { return a.s }

func (e *Endpoint) WriteToAddress(b []byte, a memberlist.Address) (time.Time, error) {
	now := time.Now()
	n := e.net
	buf := append([]byte(nil), b...)
	ev := &PacketEvent{At: now, From: e.Addr, To: a.Addr, ToName: a.Name, Buf: buf}
	e.admit.RLock()
	defer e.admit.RUnlock()
	if e.closed.Load() {
		e.WritesClosed.Add(1)
		ev.Closed = true
		n.record(ev)
		return now, &net.OpError{Op: "write", Net: "udp", Err: net.ErrClosed}
	}
	if e.WriteErr != nil {
		if err := e.WriteErr(buf, a); err != nil {
			ev.Dropped = true
			n.record(ev)
			return now, err
		}
	}
	n.mu.Lock()
	noRoute := n.unreach[a.Addr]
	n.mu.Unlock()
	if noRoute {
		ev.Dropped = true
		ev.NoRoute = true
		n.record(ev)
		return now, &net.OpError{Op: "write", Net: "udp", Addr: simAddr{a.Addr}, Err: os.NewSyscallError("sendto", syscall.ENETUNREACH)}
	}
	e.WritesOK.Add(1)
	n.mu.Lock()
	dst := n.eps[a.Addr]
	blocked := n.blocked[[2]string{e.Addr, a.Addr}] || n.udpBlocked[[2]string{e.Addr, a.Addr}]
	n.mu.Unlock()
	var fate Fate
	if n.Policy != nil {
		fate = n.Policy(n, e.Addr, a.Addr, buf)
	} else {
		fate = Fate{Delay: n.DefaultDelay}
	}
	if dst == nil {
		ev.NoRoute = true
	}
	if dst == nil || blocked || fate.Drop || e.dead.Load() {
		ev.Dropped = true
		n.record(ev)
		return now, nil
	}
	n.record(ev)
	for c := 0; c <= fate.Copies; c++ {
		d := fate.Delay
		if fate.Jitter > 0 {
			d += time.Duration(n.Intn(int(fate.Jitter)))
		}
		n.schedule(dst, ev, d)
	}
	if fate.Late > 0 {
		n.schedule(dst, ev, fate.Delay+fate.Late)
	}
	return now, nil
}

func (n *Net) record(ev *PacketEvent) {
	n.mu.Lock()
	if n.KeepTrace {
		n.packets = append(n.packets, ev)
	}
	hooks := n.OnPacket
	n.mu.Unlock()
	for _, h := range hooks {
		h(ev)
	}
}

func (n *Net) schedule(dst *Endpoint, ev *PacketEvent, d time.Duration) {
	n.mu.Lock()
	at := time.Now().Add(d)
	if n.Distinct {
		if last, ok := n.lastDeliv[dst.Addr]; ok && !at.After(last) {
			at = last.Add(time.Nanosecond)
		}
		n.lastDeliv[dst.Addr] = at
	}
	n.mu.Unlock()
	wait := time.Until(at)
	if wait < 0 {
		wait = 0
	}
	time.AfterFunc(wait, func() { n.deliver(dst, ev) })
}

func (n *Net) deliver(dst *Endpoint, ev *PacketEvent) {
	if dst.IsDown() {
		return
	}
	n.mu.Lock()
	hooks := n.OnDeliver
	n.mu.Unlock()
	for _, h := range hooks {
		h(dst.Addr, ev)
	}
	pkt := &memberlist.Packet{Buf: append([]byte(nil), ev.Buf...), From: simAddr{ev.From}, Timestamp: time.Now()}
	select {
	case dst.packetCh <- pkt:
	default:
		dst.DroppedFull.Add(1)
	}
}

// Preload places a datagram in the endpoint's receive queue right now, without a timer: traffic that reached the
// address (the socket is bound) before the application started to read.
func (e *Endpoint) Preload(from string, buf []byte) {
	e.packetCh <- &memberlist.Packet{Buf: append([]byte(nil), buf...), From: simAddr{from}, Timestamp: time.Now()}
}

// Inject delivers a raw datagram to dst as if it came from `from`, now.
func (n *Net) Inject(dst *Endpoint, from string, buf []byte) {
	ev := &PacketEvent{At: time.Now(), From: from, To: dst.Addr, Buf: append([]byte(nil), buf...)}
	n.schedule(dst, ev, 0)
}

// InjectAfter delivers a raw datagram after d.
func (n *Net) InjectAfter(dst *Endpoint, from string, buf []byte, d time.Duration) {
	ev := &PacketEvent{At: time.Now(), From: from, To: dst.Addr, Buf: append([]byte(nil), buf...)}
	n.schedule(dst, ev, d)
}

func (e *Endpoint) DialTimeout(addr string, timeout time.Duration) (net.Conn, error) {
	return e.DialAddressTimeout(memberlist.Address{Addr: addr}, timeout)
}

type timeoutErr struct{ op string }

func (e timeoutErr) Error() string   { return e.op + ": i/o timeout" }
func (e timeoutErr) Timeout() bool   { return true }
func (e timeoutErr) Temporary() bool { return true }

func (e *Endpoint) DialAddressTimeout(a memberlist.Address, timeout time.Duration) (net.Conn, error) {
	n := e.net
	if e.closed.Load() {
		e.DialsClosed.Add(1)
		return nil, &net.OpError{Op: "dial", Net: "tcp", Err: net.ErrClosed}
	}
	n.mu.Lock()
	noRoute := n.unreach[a.Addr]
	n.mu.Unlock()
	if noRoute {
		return nil, &net.OpError{Op: "dial", Net: "tcp", Addr: simAddr{a.Addr}, Err: os.NewSyscallError("connect", syscall.ENETUNREACH)}
	}
	// Like a kernel, retransmit the SYN with exponential backoff (1 s, 2 s, 4 s, ...)
	// until the peer becomes reachable or the caller's timeout expires.
	var dst *Endpoint
	start := time.Now()
	backoff := time.Second
	for {
		n.mu.Lock()
		dst = n.eps[a.Addr]
		blocked := n.blocked[[2]string{e.Addr, a.Addr}] || n.blocked[[2]string{a.Addr, e.Addr}]
		n.mu.Unlock()
		if dst != nil && dst.hung.Load() && !blocked {
			n.mu.Lock()
			n.connSeq++
			id := n.connSeq
			n.mu.Unlock()
			c := newConnPair(n, id, e.Addr, dst.Addr)
			n.mu.Lock()
			n.conns = append(n.conns, c)
			n.mu.Unlock()
			return c.Dialer, nil // nobody will ever read the other end
		}
		if dst != nil && dst.closed.Load() && !dst.dead.Load() && !blocked {
			// host up, listener gone: connection refused at once
			return nil, &net.OpError{Op: "dial", Net: "tcp", Err: os.NewSyscallError("connect", syscall.ECONNREFUSED)}
		}
		if dst != nil && !dst.dead.Load() && !blocked && !e.dead.Load() {
			break // reachable
		}
		remaining := timeout - time.Since(start)
		if n.DialFailDelay > 0 && n.DialFailDelay < timeout {
			remaining = n.DialFailDelay - time.Since(start)
		}
		if remaining <= 0 {
			return nil, &net.OpError{Op: "dial", Net: "tcp", Err: timeoutErr{"dial"}}
		}
		wait := backoff
		if wait > remaining {
			wait = remaining
		}
		time.Sleep(wait)
		backoff *= 2
		// (as with a real socket, shutting the dialling node's listeners down does not abort a connect
		// that is already in progress: it runs until its own timeout)
	}
	n.mu.Lock()
	n.connSeq++
	id := n.connSeq
	n.mu.Unlock()
	c := newConnPair(n, id, e.Addr, dst.Addr)
	if n.StreamCut != nil {
		c.d2a.cutAfter = n.StreamCut(c, true)
		c.a2d.cutAfter = n.StreamCut(c, false)
	}
	n.mu.Lock()
	n.conns = append(n.conns, c)
	n.mu.Unlock()
	select {
	case dst.streamCh <- c.Acceptor:
	default:
		return nil, &net.OpError{Op: "dial", Net: "tcp", Err: os.NewSyscallError("connect", syscall.ECONNREFUSED)}
	}
	return c.Dialer, nil
}

// CloseAll force-closes every connection (end of a scenario).
func (n *Net) CloseAll() {
	for _, c := range n.Conns() {
		c.Dialer.Close()
		c.Acceptor.Close()
	}
}

// ---- connections ----

// pipeHalf carries bytes one way.
type pipeHalf struct {
	mu        sync.Mutex
	buf       []byte
	inflight  int64
	wclosed   bool // writer closed: EOF once drained
	rclosed   bool // reader closed: writes fail
	reset     bool
	notify    chan struct{}
	wnotify   chan struct{} // room in the window / reader gone
	window    int64         // 0 = unbounded; otherwise a write blocks while this many bytes are unread (a full receive + send buffer)
	cutAfter  int64         // -1 none; bytes beyond are dropped
	cutHard   bool          // on reaching the cut: reset the connection instead of black-holing
	written   int64         // bytes accepted from the writer
	delivered int64         // bytes made readable
	consumed  int64         // bytes read by the reader
	lastAt    time.Time
	chunk     int // max bytes per Read (0 = unlimited)
}

func newHalf() *pipeHalf {
	return &pipeHalf{notify: make(chan struct{}, 1), wnotify: make(chan struct{}, 1), cutAfter: -1}
}

func (h *pipeHalf) wwake() {
	select {
	case h.wnotify <- struct{}{}:
	default:
	}
}

func (h *pipeHalf) wake() {
	select {
	case h.notify <- struct{}{}:
	default:
	}
}

// Conn is a simulated TCP connection (both ends).
type Conn struct {
	ID       int
	net      *Net
	DialAddr string
	AccAddr  string
	d2a      *pipeHalf // dialer -> acceptor
	a2d      *pipeHalf
	Dialer   *ConnEnd
	Acceptor *ConnEnd
	OpenedAt time.Time
}

// ConnEnd is one end (implements net.Conn).
type ConnEnd struct {
	c         *Conn
	dialer    bool
	rd, wr    *pipeHalf
	closed    atomic.Bool
	dlMu      sync.Mutex
	rDeadline time.Time
	wDeadline time.Time
	dlChange  chan struct{}
	wdlChange chan struct{}
	ClosedAt  time.Time
}

func newConnPair(n *Net, id int, dialAddr, accAddr string) *Conn {
	c := &Conn{ID: id, net: n, DialAddr: dialAddr, AccAddr: accAddr, d2a: newHalf(), a2d: newHalf(), OpenedAt: time.Now()}
	c.Dialer = &ConnEnd{c: c, dialer: true, rd: c.a2d, wr: c.d2a, dlChange: make(chan struct{}, 1), wdlChange: make(chan struct{}, 1)}
	c.Acceptor = &ConnEnd{c: c, dialer: false, rd: c.d2a, wr: c.a2d, dlChange: make(chan struct{}, 1), wdlChange: make(chan struct{}, 1)}
	if n.StreamWindow > 0 {
		c.d2a.window, c.a2d.window = n.StreamWindow, n.StreamWindow
	}
	return c
}

// NewLoosePair creates a connection that is not registered with any endpoint
// (for feeding a stream directly to a node through its StreamCh).
func (n *Net) NewLoosePair(dialAddr, accAddr string) *Conn {
	n.mu.Lock()
	n.connSeq++
	id := n.connSeq
	n.mu.Unlock()
	c := newConnPair(n, id, dialAddr, accAddr)
	n.mu.Lock()
	n.conns = append(n.conns, c)
	n.mu.Unlock()
	return c
}

// Offer hands the acceptor end of c to the endpoint's stream channel.
func (e *Endpoint) Offer(c *Conn) bool {
	select {
	case e.streamCh <- c.Acceptor:
		return true
	default:
		return false
	}
}

// SetCut configures a cut on the bytes flowing towards this end's peer.
func (e *ConnEnd) SetWriteCut(after int64, hard bool) {
	e.wr.mu.Lock()
	e.wr.cutAfter, e.wr.cutHard = after, hard
	e.wr.mu.Unlock()
}

// SetReadChunk limits how many bytes a single Read on this end returns.
func (e *ConnEnd) SetReadChunk(n int) {
	e.rd.mu.Lock()
	e.rd.chunk = n
	e.rd.mu.Unlock()
}

// Consumed is the number of bytes this end has read so far.
func (e *ConnEnd) Consumed() int64 {
	e.rd.mu.Lock()
	defer e.rd.mu.Unlock()
	return e.rd.consumed
}

// Written is the number of bytes this end has written so far.
func (e *ConnEnd) Written() int64 {
	e.wr.mu.Lock()
	defer e.wr.mu.Unlock()
	return e.wr.written
}

func (e *ConnEnd) IsClosed() bool { return e.closed.Load() }

func (e *ConnEnd) Read(p []byte) (int, error) {
	h := e.rd
	for {
		if e.closed.Load() {
			return 0, &net.OpError{Op: "read", Net: "tcp", Err: net.ErrClosed}
		}
		h.mu.Lock()
		if h.reset {
			h.mu.Unlock()
			return 0, &net.OpError{Op: "read", Net: "tcp", Err: os.NewSyscallError("read", syscall.ECONNRESET)}
		}
		if len(h.buf) > 0 {
			n := len(p)
			if n > len(h.buf) {
				n = len(h.buf)
			}
			if h.chunk > 0 && n > h.chunk {
				n = h.chunk
			}
			copy(p, h.buf[:n])
			h.buf = h.buf[n:]
			h.consumed += int64(n)
			more := len(h.buf) > 0
			h.mu.Unlock()
			if more {
				h.wake()
			}
			h.wwake()
			return n, nil
		}
		if h.wclosed && h.inflight == 0 {
			h.mu.Unlock()
			return 0, io.EOF
		}
		h.mu.Unlock()
		if len(p) == 0 {
			return 0, nil
		}
		e.dlMu.Lock()
		dl := e.rDeadline
		e.dlMu.Unlock()
		var tc <-chan time.Time
		var tm *time.Timer
		if !dl.IsZero() {
			d := time.Until(dl)
			if d <= 0 {
				return 0, &net.OpError{Op: "read", Net: "tcp", Err: timeoutErr{"read"}}
			}
			tm = time.NewTimer(d)
			tc = tm.C
		}
		select {
		case <-h.notify:
		case <-e.dlChange:
		case <-tc:
		}
		if tm != nil {
			tm.Stop()
		}
	}
}

func (e *ConnEnd) Write(p []byte) (int, error) {
	if w := e.wr.window; w > 0 && int64(len(p)) > w/4 {
		// bounded buffers take a large write piece by piece
		total := 0
		for len(p) > 0 {
			k := int(w / 4)
			if k > len(p) {
				k = len(p)
			}
			n, err := e.Write(p[:k])
			total += n
			if err != nil {
				return total, err
			}
			p = p[k:]
		}
		return total, nil
	}
	if e.closed.Load() {
		return 0, &net.OpError{Op: "write", Net: "tcp", Err: net.ErrClosed}
	}
	e.dlMu.Lock()
	dl := e.wDeadline
	e.dlMu.Unlock()
	if !dl.IsZero() && !time.Now().Before(dl) {
		return 0, &net.OpError{Op: "write", Net: "tcp", Err: timeoutErr{"write"}}
	}
	h := e.wr
	n := e.c.net
	for {
		h.mu.Lock()
		if h.window <= 0 || h.written-h.consumed < h.window || h.rclosed || h.reset {
			break // (lock kept)
		}
		h.mu.Unlock()
		// the peer does not read and the buffers are full: wait for room, the write deadline or the end of the connection
		if e.closed.Load() {
			return 0, &net.OpError{Op: "write", Net: "tcp", Err: net.ErrClosed}
		}
		e.dlMu.Lock()
		dl := e.wDeadline
		e.dlMu.Unlock()
		var tc <-chan time.Time
		var tm *time.Timer
		if !dl.IsZero() {
			d := time.Until(dl)
			if d <= 0 {
				return 0, &net.OpError{Op: "write", Net: "tcp", Err: timeoutErr{"write"}}
			}
			tm = time.NewTimer(d)
			tc = tm.C
		}
		select {
		case <-h.wnotify:
		case <-e.wdlChange:
		case <-tc:
		}
		if tm != nil {
			tm.Stop()
		}
	}
	if h.rclosed || h.reset {
		h.mu.Unlock()
		return 0, &net.OpError{Op: "write", Net: "tcp", Err: os.NewSyscallError("write", syscall.EPIPE)}
	}
	data := append([]byte(nil), p...)
	h.written += int64(len(p))
	pass := data
	hardCut := false
	if h.cutAfter >= 0 {
		room := h.cutAfter - (h.written - int64(len(p)))
		if room < 0 {
			room = 0
		}
		if int64(len(pass)) > room {
			pass = pass[:room]
			hardCut = h.cutHard
		}
	}
	var lat time.Duration
	if n.StreamLat != nil {
		if e.dialer {
			lat = n.StreamLat(e.c.DialAddr, e.c.AccAddr)
		} else {
			lat = n.StreamLat(e.c.AccAddr, e.c.DialAddr)
		}
	}
	now := time.Now()
	at := now.Add(lat)
	if !at.After(h.lastAt) && h.inflight > 0 {
		// strictly after everything still in flight: two timers due at the same
		// instant may fire in either order, a byte stream may not reorder
		at = h.lastAt.Add(time.Nanosecond)
	}
	h.lastAt = at
	if len(pass) > 0 {
		if h.inflight == 0 && !at.After(now) {
			h.buf = append(h.buf, pass...)
			h.delivered += int64(len(pass))
		} else {
			h.inflight++
			time.AfterFunc(time.Until(at), func() {
				h.mu.Lock()
				h.buf = append(h.buf, pass...)
				h.delivered += int64(len(pass))
				h.inflight--
				h.mu.Unlock()
				h.wake()
			})
		}
	}
	h.mu.Unlock()
	h.wake()
	ev := &StreamEvent{At: now, ConnID: e.c.ID, Dialer: e.dialer, Buf: data}
	if e.dialer {
		ev.From, ev.To = e.c.DialAddr, e.c.AccAddr
	} else {
		ev.From, ev.To = e.c.AccAddr, e.c.DialAddr
	}
	n.mu.Lock()
	if n.KeepTrace {
		n.streams = append(n.streams, ev)
	}
	hooks := n.OnStream
	n.mu.Unlock()
	for _, hk := range hooks {
		hk(ev)
	}
	if hardCut {
		e.c.Reset()
	}
	return len(p), nil
}

// Reset aborts the connection: both directions fail from now on.
func (c *Conn) Reset() {
	for _, h := range []*pipeHalf{c.d2a, c.a2d} {
		h.mu.Lock()
		h.reset = true
		h.mu.Unlock()
		h.wake()
		h.wwake()
	}
	c.Dialer.kick()
	c.Acceptor.kick()
}

func (e *ConnEnd) kick() {
	select {
	case e.wdlChange <- struct{}{}:
	default:
	}
	select {
	case e.dlChange <- struct{}{}:
	default:
	}
}

func (e *ConnEnd) Close() error {
	if e.closed.Swap(true) {
		return nil
	}
	e.ClosedAt = time.Now()
	e.wr.mu.Lock()
	e.wr.wclosed = true
	e.wr.mu.Unlock()
	e.wr.wake()
	e.rd.mu.Lock()
	e.rd.rclosed = true
	e.rd.mu.Unlock()
	e.rd.wake()
	e.rd.wwake()
	e.kick()
	return nil
}

// CloseWrite half-closes (FIN) without closing the read side.
func (e *ConnEnd) CloseWrite() {
	e.wr.mu.Lock()
	e.wr.wclosed = true
	e.wr.mu.Unlock()
	e.wr.wake()
}

func (e *ConnEnd) LocalAddr() net.Addr {
	if e.dialer {
		return tcpAddr(e.c.DialAddr)
	}
	return tcpAddr(e.c.AccAddr)
}

func (e *ConnEnd) RemoteAddr() net.Addr {
	if e.dialer {
		return tcpAddr(e.c.AccAddr)
	}
	return tcpAddr(e.c.DialAddr)
}

type tcpAddr string

func (a tcpAddr) Network() string { return "tcp" }
func (a tcpAddr) String() string  { return string(a) }

func (e *ConnEnd) SetDeadline(t time.Time) error {
	e.dlMu.Lock()
	e.rDeadline, e.wDeadline = t, t
	e.dlMu.Unlock()
	e.kick()
	return nil
}

func (e *ConnEnd) SetReadDeadline(t time.Time) error {
	e.dlMu.Lock()
	e.rDeadline = t
	e.dlMu.Unlock()
	e.kick()
	return nil
}

func (e *ConnEnd) SetWriteDeadline(t time.Time) error {
	e.dlMu.Lock()
	e.wDeadline = t
	e.dlMu.Unlock()
	return nil
}

// ReadAllUntil reads from the end until EOF/error or until the deadline.
func ReadAllUntil(e *ConnEnd, d time.Duration) []byte {
	_ = e.SetReadDeadline(time.Now().Add(d))
	var out []byte
	buf := make([]byte, 4096)
	for {
		n, err := e.Read(buf)
		out = append(out, buf[:n]...)
		if err != nil {
			return out
		}
	}
}

var errNotImpl = errors.New("not implemented")
