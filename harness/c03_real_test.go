package harness

// C03, real-time part: the library's own ChannelEventDelegate with a consumer that stalls. The delegate's send
// blocks while the node holds its state lock, which a virtual-time bubble cannot host, so this runs the simulated
// network on the real clock. The oracle compares what happened (the member is no longer listed) with what was
// delivered (a leave event for it), after the consumer has resumed; waiting is bounded by generous watchdogs whose
// expiry is inconclusive.

import (
	"fmt"
	"sync"
	"time"

	"github.com/hashicorp/memberlist"
)

func runC03SlowConsumer(run *Run, iter int) (out []*c01Result, inconclusive string) {
	fail := func(key, f string, a ...any) {
		out = append(out, &c01Result{"C03/real/" + key, fmt.Sprintf(f, a...)})
	}
	c := NewCluster(int64(9300 + iter))
	defer c.Close()
	c.Net.KeepTrace = false
	events := make(chan memberlist.NodeEvent, 2)
	var mu sync.Mutex
	var got []string
	resume := make(chan struct{})
	go func() {
		<-resume
		for ev := range events {
			mu.Lock()
			got = append(got, fmt.Sprintf("%d:%s", ev.Event, ev.Node.Name))
			mu.Unlock()
		}
	}()
	mut := func(cf *memberlist.Config) {
		cf.ProbeInterval = 100 * time.Millisecond
		cf.ProbeTimeout = 40 * time.Millisecond
		cf.SuspicionMult = 2
		cf.GossipInterval = 50 * time.Millisecond
		cf.PushPullInterval = 0
		cf.DisableTcpPings = true
	}
	A, err := c.Add(NodeSpec{Name: "A", IP: "10.0.3.1", NoEvents: true, Mutate: func(cf *memberlist.Config) {
		mut(cf)
		cf.Events = &memberlist.ChannelEventDelegate{Ch: events}
	}})
	if err != nil {
		return nil, "create: " + err.Error()
	}
	B, err := c.Add(NodeSpec{Name: "B", IP: "10.0.3.2", Mutate: mut})
	if err != nil {
		return nil, "create: " + err.Error()
	}
	// the channel (capacity 2) now holds A's own join; B's join fills it; nobody reads yet
	if _, err := B.ML().Join([]string{A.EP.Addr}); err != nil {
		return nil, "join: " + err.Error()
	}
	if !waitUntil(10*time.Second, func() bool { return len(events) == 2 }) {
		return nil, "the two join events did not arrive"
	}
	c.Crash(B)
	// the node works B's death out on its own evidence; the leave event finds the channel full
	time.Sleep(4 * time.Second)
	close(resume)
	run.Cell("real", "stalled-event-consumer")
	if !waitUntil(60*time.Second, func() bool {
		for _, n := range A.MemberNames() {
			if n == "B" {
				return false
			}
		}
		return true
	}) {
		return nil, "the crashed member was not removed within a minute of real time"
	}
	ok := waitUntil(20*time.Second, func() bool {
		mu.Lock()
		defer mu.Unlock()
		for _, g := range got {
			if g == fmt.Sprintf("%d:B", memberlist.NodeLeave) {
				return true
			}
		}
		return false
	})
	if !ok {
		mu.Lock()
		fail("no-leave-event/stalled-consumer", "the crashed member is no longer listed in Members(), the application's event consumer (ChannelEventDelegate, capacity 2) had stalled for 4 s and has been reading again for 20 s: no leave event for it was ever delivered (events read: %v)", got)
		mu.Unlock()
	}
	return out, ""
}
