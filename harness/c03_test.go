package harness

// C03 — a crashed member is removed by every live node within a bounded time;
// the probe schedule visits every live peer once per pass.

import (
	"fmt"
	"math/rand"
	"strings"
	"sync"
	"testing"
	"time"

	"github.com/hashicorp/memberlist"
)

func genCrashScn(rng *rand.Rand, maxN int) faultScn {
	sc := faultScn{
		N:        3 + rng.Intn(maxN-2),
		PV:       []int{5, 5, 2, 3, 1}[rng.Intn(5)],
		Indirect: rng.Intn(4),
		TCPPing:  rng.Intn(2) == 0,
		Enc:      rng.Intn(4) == 0,
		Label:    []string{"", "", "lab"}[rng.Intn(3)],
		Compress: rng.Intn(2) == 0,
		PushPull: []time.Duration{0, 5 * time.Second, 30 * time.Second}[rng.Intn(3)],
		DeadTime: []time.Duration{30 * time.Second, 30 * time.Second, 3 * time.Second}[rng.Intn(3)], // (3 s: shorter than any suspicion timeout)
		Reclaim:  []time.Duration{0, 0, 10 * time.Second}[rng.Intn(3)],
	}
	maxCrash := (sc.N+1)/2 - 1
	if maxCrash < 1 {
		maxCrash = 1
	}
	k := 1 + rng.Intn(maxCrash)
	perm := rng.Perm(sc.N)
	t := time.Duration(3000+rng.Intn(8000)) * time.Millisecond
	for i := 0; i < k; i++ {
		kind := "crash"
		switch rng.Intn(6) {
		case 0, 1:
			kind = "hang" // process wedged: sockets stay open, nothing answers
		case 2:
			kind = "unreach" // host and route gone: sends towards it fail locally (ENETUNREACH)
		}
		sc.Actions = append(sc.Actions, faultAction{At: t, Kind: kind, A: perm[i]})
		if kind == "crash" && rng.Intn(3) == 0 {
			// the crashed member's address is taken over by a member with a different name
			// (often before anybody has had the time to notice the crash)
			d := time.Duration(200+rng.Intn(10000)) * time.Millisecond
			if rng.Intn(2) == 0 {
				d = time.Duration(10+rng.Intn(400)) * time.Millisecond
			}
			sc.Actions = append(sc.Actions, faultAction{At: t + d, Kind: "replace", A: perm[i]})
		}
		switch rng.Intn(4) {
		case 0:
			// during another node's join / push-pull
			sc.Actions = append(sc.Actions, faultAction{At: t - 100*time.Microsecond, Kind: "join", A: perm[sc.N-1]})
		case 1:
			sc.Actions = append(sc.Actions, faultAction{At: t + 50*time.Millisecond, Kind: "update", A: perm[sc.N-1]})
		}
		// next crash: often inside the previous one's suspicion window
		t += time.Duration(200+rng.Intn(9000)) * time.Millisecond
	}
	if p := []float64{0, 0, 0.1, 0.3, 0.6, 1.0}[rng.Intn(6)]; p > 0 {
		sc.Actions = append(sc.Actions, faultAction{At: time.Duration(rng.Intn(6000)) * time.Millisecond, Kind: "loss", P: p})
	}
	sortActions(sc.Actions)
	sc.rareConfig(rng)
	return sc
}

type pairState struct {
	listed  bool // S listed C at/after the crash
	t0      time.Time
	lastInc uint32
	lastSt  memberlist.NodeStateType
	seen    bool
	maxRec  int
}

func runC03Crash(run *Run, seed int64, sc faultScn, rng *rand.Rand) (out []*c01Result, logs map[string][]string) {
	fail := func(key, f string, a ...any) {
		if len(out) < 6 {
			out = append(out, &c01Result{"C03/" + key, fmt.Sprintf(f, a...)})
		}
	}
	ch, err := NewChaos(seed, sc, rng)
	if err != nil {
		fail("harness/create", "%v", err)
		return
	}
	defer func() {
		if len(out) > 0 {
			logs = ch.C.LogTails(12)
		}
		ch.Close()
	}()
	pairs := map[[2]int]*pairState{}
	// wire monitor for "never probes dead peers": direct pings S->C and indirect-ping requests X->S about C
	type wireEv struct {
		at       time.Time
		from, to string
		about    string
		indirect bool
	}
	var wmu sync.Mutex
	var wire []wireEv
	var keys [][]byte
	if ch.key != nil {
		keys = [][]byte{ch.key}
	}
	ch.C.Net.OnPacket = append(ch.C.Net.OnPacket, func(ev *PacketEvent) {
		if ev.Closed {
			return
		}
		pi := ParsePacket(ev.Buf, keys)
		if pi.Err != nil {
			return
		}
		for _, l := range pi.Leaves {
			switch l.Type {
			case TPing:
				var p WPing
				if mpDecode(l.Body, &p) == nil {
					wmu.Lock()
					wire = append(wire, wireEv{ev.At, ev.From, ev.To, p.Node, false})
					wmu.Unlock()
				}
			case TIndirectPing:
				var p WIndirectPing
				if mpDecode(l.Body, &p) == nil {
					wmu.Lock()
					wire = append(wire, wireEv{ev.At, ev.From, ev.To, p.Node, true})
					wmu.Unlock()
				}
			}
		}
	})
	// "stops listing it": once removed, a crashed member does not come back on old news. While a
	// survivor still holds the dead record it is sent - as delayed gossip from another survivor - the alive
	// claim it last accepted (same address, same incarnation): right after the removal and, when a
	// reclaim time is set, once more after it has elapsed. One poll later the member must still be unlisted.
	stale := 0
	type staleKey struct {
		s, c  int
		stage int
	}
	staleSent := map[staleKey]bool{}
	type staleExp struct {
		s        *chaosNode
		name     string
		inc      uint32
		stage    int
		deadline time.Time
	}
	var staleWait []staleExp
	staleStep := func(ch *Chaos) {
		now := time.Now()
		keep := staleWait[:0]
		for _, e := range staleWait {
			if now.Before(e.deadline) {
				keep = append(keep, e)
				continue
			}
			if e.s.Live() {
				// (a survivor that lagged behind may meanwhile have passed on a NEWER alive claim of the crashed
				// member - it had refuted a false suspicion before it crashed -: that is new knowledge, not old news)
				if r := e.s.Node.Record(e.name); r != nil && r.State != memberlist.StateDead && r.State != memberlist.StateLeft && r.Incarnation <= e.inc {
					fail("relisted-on-old-news", "%s had removed crashed %s (dead at incarnation %d); a delayed copy of the alive claim at that incarnation from the same address made it list the member again as %s (reclaim time %v, stage %d)", e.s.Name, e.name, e.inc, recString(r), sc.Reclaim, e.stage)
				}
			}
		}
		staleWait = keep
		live := ch.LiveNodes()
		if len(live) < 2 {
			return
		}
		for _, sN := range live {
			for _, c := range ch.Nodes {
				if !c.Crashed || c.Replaced {
					continue
				}
				r := sN.Node.Record(c.Name)
				if r == nil || r.State != memberlist.StateDead {
					continue
				}
				age := now.Sub(r.StateChange)
				stage := 0
				if sc.Reclaim > 0 && age > sc.Reclaim+500*time.Millisecond {
					stage = 1
				}
				k := staleKey{sN.Idx, c.Idx, stage}
				if staleSent[k] || age > sc.DeadTime-time.Second {
					continue
				}
				staleSent[k] = true
				from := live[rng.Intn(len(live))]
				if from == sN {
					continue
				}
				pc := PacketCfg{Label: sc.Label}
				if ch.key != nil {
					pc.Key, pc.EncVsn = ch.key, 1
					if sN.Node.Conf.ProtocolVersion == 1 {
						pc.EncVsn = 0
					}
				}
				msg := Enc(TAlive, &WAlive{Incarnation: r.Incarnation, Node: c.Name, Addr: r.Addr, Port: r.Port, Meta: r.Meta, Vsn: r.Vsn[:]})
				var pkt []byte
				ch.C.Net.Rand(func(rr *rand.Rand) { pkt = BuildPacket(pc, msg, rr) })
				ch.C.Net.Inject(sN.Node.EP, from.Node.EP.Addr, pkt)
				staleWait = append(staleWait, staleExp{sN, c.Name, r.Incarnation, stage, now.Add(100 * time.Millisecond)})
				stale++
				run.Cell("stale-alive-after-removal", fmt.Sprintf("stage=%d", stage))
			}
		}
	}
	ch.OnPoll = func(ch *Chaos) {
		staleStep(ch)
		for _, c := range ch.Nodes {
			if !c.Crashed {
				continue
			}
			for _, s := range ch.Nodes {
				if s.Crashed || s.Left || s.Leaving || s.Restarts > 0 {
					continue
				}
				k := [2]int{s.Idx, c.Idx}
				ps := pairs[k]
				if ps == nil {
					ps = &pairState{t0: c.CrashedAt}
					pairs[k] = ps
				}
				v := s.Node.ML().VerifDump()
				if len(v.Records) > ps.maxRec {
					ps.maxRec = len(v.Records)
				}
				var rec *memberlist.VerifRecord
				for i := range v.Records {
					if v.Records[i].Name == c.Name {
						rec = &v.Records[i]
					}
				}
				if rec == nil {
					continue
				}
				live := rec.State == memberlist.StateAlive || rec.State == memberlist.StateSuspect
				if live {
					ps.listed = true
				}
				// an accepted alive claim shows as a higher incarnation or a return to alive
				// (only while the record is live: a higher incarnation on a dead record comes from a
				// death claim, which is not news of the member being alive)
				wasLive := ps.lastSt == memberlist.StateAlive || ps.lastSt == memberlist.StateSuspect
				if ps.seen && live && (rec.Incarnation > ps.lastInc || !wasLive || (rec.State == memberlist.StateAlive && ps.lastSt != memberlist.StateAlive)) {
					ps.t0 = time.Now()
				}
				ps.seen, ps.lastInc, ps.lastSt = true, rec.Incarnation, rec.State
			}
		}
	}
	next := 0
	var lastCrash time.Duration
	for _, a := range sc.Actions {
		if (a.Kind == "crash" || a.Kind == "hang" || a.Kind == "unreach") && a.At > lastCrash {
			lastCrash = a.At
		}
	}
	cf := ch.Nodes[0].Node.Conf
	horizon := lastCrash + detectionBound(cf, sc.N) + 5*time.Second
	ch.RunUntil(horizon, &next)
	for _, p := range ch.C.Problems() {
		out = append(out, &c01Result{p.Key, p.What})
	}
	// pace monitor: a probe that ends in a suspicion ends by its awareness-scaled deadline
	paceMax := time.Duration(cf.AwarenessMaxMultiplier)*cf.ProbeInterval - cf.ProbeTimeout + time.Millisecond
	probes := 0
	for _, s := range ch.Nodes {
		for _, nd := range append([]*SimNode{s.Node}, s.Old...) {
			pending := map[string]time.Time{}
			for _, ln := range nd.Log.Lines() {
				var who string
				if n, _ := fmt.Sscanf(ln.Text, "[DEBUG] memberlist: Failed UDP ping: %s (timeout reached)", &who); n == 1 {
					pending[who] = ln.At
				}
				// a node runs one probe at a time: a probe that was rescued over TCP, or a later one whose
				// datagram the local stack refused (no "Failed UDP ping" line), ends the pending one
				if strings.Contains(ln.Text, "over TCP but UDP probes failed") || strings.Contains(ln.Text, "Failed to send UDP ") {
					pending = map[string]time.Time{}
				}
				if n, _ := fmt.Sscanf(ln.Text, "[INFO] memberlist: Suspect %s has failed, no acks received", &who); n == 1 {
					if t1, ok := pending[who]; ok {
						probes++
						d := ln.At.Sub(t1)
						run.Max("probe_tail_over_limit", float64(d)/float64(paceMax))
						if d > paceMax {
							fail("probe-overran-deadline", "%s: probe of %s timed out on UDP at +%v but was only given up %v later; the slowest awareness-scaled probe interval allows %v", s.Name, who, t1.Sub(ch.Start), d, paceMax)
						}
						delete(pending, who)
					}
				}
			}
		}
	}
	run.Count("failed_probes_timed", int64(probes))
	judged := 0
	for k, ps := range pairs {
		s, c := ch.Nodes[k[0]], ch.Nodes[k[1]]
		if s.Crashed || !ps.listed {
			continue
		}
		judged++
		bound := detectionBound(cf, ps.maxRec)
		// last join/update of C at S after the crash also moves t0
		var leaveAt time.Time
		t0 := ps.t0
		for _, e := range s.Node.Ev.Log() {
			if e.Name != c.Name {
				continue
			}
			if (e.Kind == "join" || e.Kind == "update") && e.At.After(t0) {
				t0 = e.At
			}
		}
		for _, e := range s.Node.Ev.Log() {
			if e.Name == c.Name && e.Kind == "leave" && !e.At.Before(t0) {
				leaveAt = e.At
			}
		}
		still := false
		for _, nm := range s.Node.MemberNames() {
			if nm == c.Name {
				still = true
			}
		}
		elapsed := time.Since(t0)
		if still {
			if elapsed > bound {
				fail("not-removed", "%s still lists crashed %s %v after it last heard it alive (bound %v for %d records; crash at +%v)", s.Name, c.Name, elapsed, bound, ps.maxRec, c.CrashedAt.Sub(ch.Start))
			}
			continue
		}
		if leaveAt.IsZero() {
			fail("no-leave-event", "%s no longer lists crashed %s but delivered no leave event after +%v", s.Name, c.Name, t0.Sub(ch.Start))
			continue
		}
		// after S has dropped C it must not probe it any more: every later ping S->C must be a relay
		// made on somebody else's request (one request, one ping), allowing one probe that was in flight
		grace := leaveAt.Add(time.Duration(cf.AwarenessMaxMultiplier) * cf.ProbeInterval)
		wmu.Lock()
		pings, reqs := 0, 0
		for _, w := range wire {
			if !w.at.After(grace) || w.about != c.Name {
				continue
			}
			if !w.indirect && w.from == s.Node.EP.Addr {
				pings++
			}
			if w.indirect && w.to == s.Node.EP.Addr {
				reqs++
			}
		}
		wmu.Unlock()
		// later re-joins of C (restart) are not generated in these scenarios: C stays down
		rejoined := false
		for _, e := range s.Node.Ev.Log() {
			if e.Name == c.Name && e.Kind == "join" && e.At.After(leaveAt) {
				rejoined = true
			}
		}
		if pings > reqs && !rejoined {
			fail("probes-dead-peer", "%s declared %s dead at +%v but sent it %d pings later on, only %d of which can be relays for others", s.Name, c.Name, leaveAt.Sub(ch.Start), pings, reqs)
		}
		run.Count("post-death_pings_all_relays", int64(pings))
		run.Count("post-death_pairs_watched_on_wire", 1)
		d := leaveAt.Sub(t0)
		run.Max("detection_over_bound", float64(d)/float64(bound))
		if d > bound {
			fail("late", "%s removed crashed %s after %v, bound is %v (%d records)", s.Name, c.Name, d, bound, ps.maxRec)
		}
	}
	run.Count("stale_alive_claims_after_removal", int64(stale))
	run.Count("pairs_judged", int64(judged))
	run.Count("polls", int64(ch.Polls))
	if judged == 0 {
		// e.g. total loss began before the crash and every survivor had already declared the node dead
		run.Count("scenarios_without_judged_pair", 1)
	}
	return
}

// schedule monitor: fault-free, membership-stable run; every ping is a direct probe.
func runC03Schedule(run *Run, seed int64, n int, passes int, pv int) (out []*c01Result) {
	fail := func(key, f string, a ...any) {
		out = append(out, &c01Result{"C03/schedule/" + key, fmt.Sprintf(f, a...)})
	}
	sc := faultScn{N: n, PV: pv, Indirect: 3, TCPPing: true, PushPull: 30 * time.Second, DeadTime: 30 * time.Second}
	ch, err := NewChaos(seed, sc, rand.New(rand.NewSource(seed)))
	if err != nil {
		fail("harness", "%v", err)
		return
	}
	defer ch.Close()
	Settle(2 * time.Second)
	var mu sync.Mutex
	counts := map[string]map[string]int{}
	nameOf := map[string]string{}
	for _, cn := range ch.Nodes {
		nameOf[cn.Node.EP.Addr] = cn.Name
	}
	ch.C.Net.OnPacket = append(ch.C.Net.OnPacket, func(ev *PacketEvent) {
		pi := ParsePacket(ev.Buf, nil)
		if pi.Err != nil {
			return
		}
		for _, l := range pi.Leaves {
			if l.Type == TPing {
				var p WPing
				if mpDecode(l.Body, &p) == nil {
					mu.Lock()
					from := nameOf[ev.From]
					if counts[from] == nil {
						counts[from] = map[string]int{}
					}
					counts[from][p.Node]++
					mu.Unlock()
				}
			}
			if l.Type == TIndirectPing || l.Type == TSuspect {
				mu.Lock()
				counts["!fault"] = map[string]int{"x": 1}
				mu.Unlock()
			}
		}
	})
	next := 0
	ch.RunUntil(time.Since(ch.Start)+time.Duration(passes*(n-1))*time.Second+500*time.Millisecond, &next)
	mu.Lock()
	defer mu.Unlock()
	if counts["!fault"] != nil {
		fail("harness/not-fault-free", "indirect probes or suspicions appeared in a fault-free run")
		return
	}
	for _, s := range ch.Nodes {
		cs := counts[s.Name]
		if cs[s.Name] > 0 {
			fail("probes-itself", "%s sent %d pings addressed to itself", s.Name, cs[s.Name])
		}
		lo, hi := 1<<30, 0
		for _, p := range ch.Nodes {
			if p == s {
				continue
			}
			v := cs[p.Name]
			if v < lo {
				lo = v
			}
			if v > hi {
				hi = v
			}
		}
		run.Max("schedule_spread", float64(hi-lo))
		if hi-lo > 2 {
			fail("unfair", "%s probed its peers unevenly over %d passes with stable membership: per-peer counts %v (spread %d > 2)", s.Name, passes, cs, hi-lo)
		}
		if lo < passes-2 {
			fail("starved", "%s probed some peer only %d times in %d passes: %v", s.Name, lo, passes, cs)
		}
	}
	for _, p := range ch.C.Problems() {
		out = append(out, &c01Result{p.Key, p.What})
	}
	return
}

func TestC03(t *testing.T) {
	run := NewRun(t, "C03", "exploration",
		"Bounded-progress restatement of an 'eventually' property, decided in virtual time. Crash scenarios: real clusters of 3-12 (thorough 3-24) nodes, 1..ceil(n/2)-1 crashes (black hole + shutdown; hung process; host and route gone so that sends fail locally with ENETUNREACH; black hole whose address is later taken over by a member with another name) at PRNG instants incl. during another node's join/push-pull/update and inside another crash's suspicion window, loss among survivors in {0,10,30,60,100}%, config matrix (protocol version, indirect checks 0-3, TCP fallback, encryption, label, compression, push/pull interval). For every (survivor S, crashed C) with C listed by S: t_leave - t0 <= B where t0 = max(crash, last instant S accepted an alive claim about C as seen in 200 ms dump polls / join-update events) and B = 2*N_S*(AwarenessMax+1)*ProbeInterval + SuspicionMaxTimeoutMult*suspicionTimeout(N_S) + ProbeInterval with N_S the largest record count S held; S must deliver a leave event. Schedule scenarios: fault-free stable clusters, every ping on the tap is a direct probe; per prober the per-peer ping counts over >= 8 passes differ by at most 2, never itself. Cell = (n bucket, loss, crash count, tcp, indirect) / schedule(n).")
	defer run.Finish()
	run.Assume("B is a deliberately loose upper bound: the failures it is meant to expose (peer never probed, timer never firing) are unbounded", "no finite run decides 'eventually': the claim is bounded progress on the executions produced")
	n := run.Pick(96, 4800)
	for i := 0; i < n; i++ {
		if !run.Mine(i) {
			continue
		}
		id := fmt.Sprintf("crash/%d", i)
		if !run.Want(id) {
			continue
		}
		rng := run.RNG(id)
		sc := genCrashScn(rng, run.Pick(12, 24))
		if i%40 == 7 {
			sc = genCrashScn(rng, 32) // a larger table now and then (up to 32 members)
		}
		run.Journal(id, "")
		var res []*c01Result
		var logs map[string][]string
		err := Bubble(t, func() { res, logs = runC03Crash(run, run.Seed()*977+int64(i), sc, rng) })
		if err != nil {
			res = append(res, &c01Result{"C03/bubble", err.Error()})
		}
		run.Eval(1)
		loss := 0.0
		crashes := 0
		for _, a := range sc.Actions {
			if a.Kind == "loss" {
				loss = a.P
			}
			if a.Kind == "crash" || a.Kind == "hang" || a.Kind == "unreach" {
				crashes++
				run.Cell("crash-kind", a.Kind, fmt.Sprintf("tcp=%v", sc.TCPPing))
			}
			if a.Kind == "replace" {
				run.Cell("crash-kind", "address-taken-over", fmt.Sprintf("tcp=%v", sc.TCPPing))
			}
		}
		nb := "n<=4"
		if sc.N > 4 {
			nb = "n<=8"
		}
		if sc.N > 8 {
			nb = "n>8"
		}
		run.Cell("crash", nb, fmt.Sprintf("loss=%.1f", loss), fmt.Sprintf("crashes=%d", crashes), fmt.Sprintf("tcp=%v", sc.TCPPing), fmt.Sprintf("ind=%d", sc.Indirect))
		for _, r := range res {
			run.Violation(id, r.Key, r.What, map[string]any{"scenario": sc, "logs": logs})
		}
		if i == 0 {
			run.Sample(sc)
		}
	}
	ns := run.Pick(12, 600)
	for i := 0; i < ns; i++ {
		if !run.Mine(i) {
			continue
		}
		id := fmt.Sprintf("schedule/%d", i)
		if !run.Want(id) {
			continue
		}
		rng := run.RNG(id)
		nn := 3 + rng.Intn(run.Pick(8, 14))
		run.Journal(id, "")
		var res []*c01Result
		err := Bubble(t, func() { res = runC03Schedule(run, run.Seed()*31+int64(i), nn, 9, []int{2, 5}[i%2]) })
		if err != nil {
			res = append(res, &c01Result{"C03/bubble", err.Error()})
		}
		run.Eval(1)
		run.Cell("schedule", fmt.Sprintf("n=%d", nn))
		for _, r := range res {
			run.Violation(id, r.Key, r.What, map[string]any{"n": nn})
		}
	}
	if !run.Replaying() {
		run.Require("crash-kind|crash|tcp=true", "crash-kind|hang|tcp=true", "crash-kind|unreach|tcp=true", "crash-kind|unreach|tcp=false", "crash-kind|address-taken-over|tcp=true")
	}
	for i := 0; i < run.Pick(2, 40); i++ {
		id := fmt.Sprintf("real/stalled-event-consumer/%d", i)
		if !run.Mine(i) || !run.Want(id) {
			continue
		}
		run.Journal(id, "")
		res, inc := runC03SlowConsumer(run, i)
		run.Eval(1)
		if inc != "" {
			run.Note("real-time scenario %s inconclusive: %s", id, inc)
			run.Count("real_inconclusive", 1)
		}
		for _, r := range res {
			run.Violation(id, r.Key, r.What, nil)
		}
	}
	run.Complete()
	if run.Violations() > 0 {
		t.Errorf("%d violation(s)", run.Violations())
	}
}
