package harness

// C05 — views re-converge to the live set once faults stop.

import (
	"fmt"
	"math/rand"
	"sort"
	"strings"
	"testing"
	"time"

	"github.com/hashicorp/memberlist"
)

func genFaultScn(rng *rand.Rand, maxN int, phase time.Duration) faultScn {
	sc := faultScn{
		N:        3 + rng.Intn(maxN-2),
		PV:       []int{5, 5, 2, 4}[rng.Intn(4)],
		Indirect: rng.Intn(4),
		TCPPing:  rng.Intn(3) > 0,
		Enc:      rng.Intn(4) == 0,
		Label:    []string{"", "", "zone"}[rng.Intn(3)],
		Compress: rng.Intn(2) == 0,
		PushPull: time.Duration(2+rng.Intn(4)) * time.Second,
		DeadTime: time.Duration(5+rng.Intn(26)) * time.Second,
		Reclaim:  []time.Duration{0, 0, 10 * time.Second}[rng.Intn(3)],
		TStop:    phase,
	}
	at := func() time.Duration { return time.Duration(rng.Int63n(int64(phase))) }
	nact := 2 + rng.Intn(10)
	crashed := map[int]bool{}
	leftAt := map[int]time.Duration{}
	gone := 0
	for i := 0; i < nact; i++ {
		t := at()
		switch rng.Intn(12) {
		case 0, 1:
			p := []float64{0.1, 0.3, 0.5, 0.8, 1.0}[rng.Intn(5)]
			d := time.Duration(2+rng.Intn(40)) * time.Second
			sc.Actions = append(sc.Actions, faultAction{At: t, Kind: "loss", P: p}, faultAction{At: t + d, Kind: "loss", P: 0})
		case 2:
			if rng.Intn(2) == 0 {
				// stale duplicates: copies that arrive seconds to half a minute after the original
				sc.Actions = append(sc.Actions, faultAction{At: t, Kind: "latedup", P: 0.3}, faultAction{At: t + 30*time.Second, Kind: "latedup", P: 0})
				break
			}
			sc.Actions = append(sc.Actions, faultAction{At: t, Kind: "dup", P: 0.3}, faultAction{At: t + 20*time.Second, Kind: "dup", P: 0})
		case 3:
			if rng.Intn(2) == 0 {
				sc.Actions = append(sc.Actions, faultAction{At: t, Kind: "streamcut", P: 0.6}, faultAction{At: t + time.Duration(10+rng.Intn(30))*time.Second, Kind: "streamcut", P: 0})
				break
			}
			d := []time.Duration{300 * time.Millisecond, time.Second, 3 * time.Second}[rng.Intn(3)]
			sc.Actions = append(sc.Actions, faultAction{At: t, Kind: "delay", Dur: d}, faultAction{At: t + 15*time.Second, Kind: "delay", Dur: 0})
		case 4, 5:
			k := 1 + rng.Intn(sc.N-1)
			set := rng.Perm(sc.N)[:k]
			d := time.Duration(3+rng.Intn(60)) * time.Second
			sc.Actions = append(sc.Actions, faultAction{At: t, Kind: "partition", Set: set}, faultAction{At: t + d, Kind: "heal"})
		case 6:
			a, b := rng.Intn(sc.N), rng.Intn(sc.N)
			if a != b {
				sc.Actions = append(sc.Actions, faultAction{At: t, Kind: "oneway", A: a, B: b}, faultAction{At: t + time.Duration(5+rng.Intn(30))*time.Second, Kind: "heal"})
			}
		case 7, 8:
			a := rng.Intn(sc.N)
			if !crashed[a] && gone < sc.N-2 {
				crashed[a] = true
				kind := "crash"
				switch rng.Intn(8) {
				case 0, 1:
					kind = "hang"
				case 2:
					kind = "unreach" // host and route gone: sends towards it fail locally
				}
				sc.Actions = append(sc.Actions, faultAction{At: t, Kind: kind, A: a})
				switch rng.Intn(4) {
				case 0, 1:
					// same-address restart: quickly (peers still hold it alive) or after detection
					d := []time.Duration{200 * time.Millisecond, 2 * time.Second, 20 * time.Second, 50 * time.Second}[rng.Intn(4)]
					sc.Actions = append(sc.Actions, faultAction{At: t + d, Kind: "restart", A: a})
				case 2:
					// the address is taken over by a node with another name; the old name stays crashed
					d := []time.Duration{300 * time.Millisecond, 3 * time.Second, 30 * time.Second}[rng.Intn(3)]
					sc.Actions = append(sc.Actions, faultAction{At: t + d, Kind: "replace", A: a})
					gone++
				default:
					gone++
				}
			}
		case 9:
			a := rng.Intn(sc.N)
			if !crashed[a] && gone < sc.N-2 {
				crashed[a] = true
				gone++
				sc.Actions = append(sc.Actions, faultAction{At: t, Kind: "leave", A: a})
				leftAt[a] = t
			}
		default:
			sc.Actions = append(sc.Actions, faultAction{At: t, Kind: "update", A: rng.Intn(sc.N)})
		}
	}
	// "veteran" restarts: the node that is restarted on its address had already raised its incarnation
	// several times in its first life (the peers remember a high one) and changes its metadata again
	// soon after coming back
	var extra []faultAction
	for i, a := range sc.Actions {
		if a.Kind != "restart" || rng.Intn(2) == 0 {
			continue
		}
		var crashAt time.Duration
		for _, b := range sc.Actions[:i+1] {
			if (b.Kind == "crash" || b.Kind == "hang" || b.Kind == "unreach") && b.A == a.A {
				crashAt = b.At
			}
		}
		if crashAt < 2*time.Second {
			continue
		}
		for k := 2 + rng.Intn(3); k > 0; k-- {
			extra = append(extra, faultAction{At: time.Duration(rng.Int63n(int64(crashAt))), Kind: "update", A: a.A})
		}
		if after := a.At + time.Duration(1+rng.Intn(5))*time.Second; after < phase {
			extra = append(extra, faultAction{At: after, Kind: "update", A: a.A})
		}
		// half of the veterans come back with exactly the configuration they crashed with (same metadata): what
		// the peers still hold about them then matches their own announcement in everything but the incarnation
		if rng.Intn(2) == 0 {
			sc.Actions[i].P = 1
		}
	}
	sc.Actions = append(sc.Actions, extra...)
	sortActions(sc.Actions)
	sc.rareConfig(rng)
	// (drawn last, so that the scripts of a seed stay what they were) a name that left comes back, from its old
	// address or from another one
	for a, t := range leftAt {
		if rng.Intn(2) == 0 {
			back := t + time.Duration(16+rng.Intn(40))*time.Second
			if back < phase {
				sc.Actions = append(sc.Actions, faultAction{At: back, Kind: "rejoin", A: a, P: float64(rng.Intn(2))})
			}
		}
	}
	sortActions(sc.Actions)
	return sc
}

type viewDiff struct {
	Node    string   `json:"node"`
	Members []string `json:"members"`
	Problem string   `json:"problem"`
}

// convergence: every live node lists exactly the live nodes with the owner's current meta.
func (ch *Chaos) convergence() (ok bool, diffs []viewDiff) {
	live := ch.LiveNodes()
	want := map[string]string{}
	var names []string
	for _, cn := range live {
		want[cn.Name] = string(cn.Node.Del.NodeMeta(512))
		names = append(names, cn.Name)
	}
	sort.Strings(names)
	ok = true
	for _, cn := range live {
		v := cn.Node.ML().VerifDump()
		got := liveOf(v)
		var gn []string
		for n := range got {
			gn = append(gn, n)
		}
		sort.Strings(gn)
		var probs []string
		if fmt.Sprint(gn) != fmt.Sprint(names) {
			probs = append(probs, fmt.Sprintf("lists %v, live set is %v", gn, names))
		}
		for n, info := range got {
			if w, okk := want[n]; okk && info.Meta != w {
				probs = append(probs, fmt.Sprintf("holds %s with meta %q, owner's latest is %q", n, info.Meta, w))
			}
		}
		for _, r := range v.Records {
			if r.State == memberlist.StateSuspect {
				if _, isLive := want[r.Name]; isLive {
					probs = append(probs, fmt.Sprintf("still suspects live %s", r.Name))
				}
			}
		}
		if len(probs) > 0 {
			ok = false
			diffs = append(diffs, viewDiff{cn.Name, gn, strings.Join(probs, "; ")})
		}
	}
	return
}

// connectedAtStop: undirected graph on live nodes, edge if either lists the other.
func (ch *Chaos) connectedAtStop() (bool, map[string][]string) {
	live := ch.LiveNodes()
	idx := map[string]int{}
	for i, cn := range live {
		idx[cn.Name] = i
	}
	adj := make([][]int, len(live))
	views := map[string][]string{}
	for i, cn := range live {
		for _, n := range cn.Node.MemberNames() {
			views[cn.Name] = append(views[cn.Name], n)
			if j, ok := idx[n]; ok && j != i {
				adj[i] = append(adj[i], j)
				adj[j] = append(adj[j], i)
			}
		}
	}
	if len(live) == 0 {
		return false, views
	}
	seen := map[int]bool{0: true}
	stack := []int{0}
	for len(stack) > 0 {
		x := stack[len(stack)-1]
		stack = stack[:len(stack)-1]
		for _, y := range adj[x] {
			if !seen[y] {
				seen[y] = true
				stack = append(stack, y)
			}
		}
	}
	return len(seen) == len(live), views
}

type c05Outcome struct {
	Judged  bool
	Settled time.Duration
	Results []*c01Result
	Witness map[string]any
}

// stopWhen (optional) ends the fault phase as soon as it returns true at a poll.
func runC05(run *Run, seed int64, sc faultScn, rng *rand.Rand, stopWhen ...func(ch *Chaos) bool) (o c05Outcome) {
	fail := func(key, f string, a ...any) {
		if len(o.Results) < 6 {
			o.Results = append(o.Results, &c01Result{"C05/" + key, fmt.Sprintf(f, a...)})
		}
	}
	ch, err := NewChaos(seed, sc, rng)
	if err != nil {
		fail("harness/create", "%v", err)
		return
	}
	defer ch.Close()
	next := 0
	if len(stopWhen) > 0 {
		for time.Since(ch.Start) < sc.TStop {
			ch.RunUntil(time.Since(ch.Start)+200*time.Millisecond, &next)
			if stopWhen[0](ch) {
				break
			}
		}
	} else {
		ch.RunUntil(sc.TStop, &next)
	}
	ch.stopFaults()
	Settle(0)
	// operations still in flight (Leave / Join / UpdateNode goroutines) belong to the faulty period
	ch.wg.Wait()
	Settle(0)
	for _, p := range ch.C.Problems() {
		o.Results = append(o.Results, &c01Result{p.Key, p.What})
	}
	if len(o.Results) > 0 {
		o.Witness = map[string]any{"logs": ch.C.LogTails(10)}
		return
	}
	conn, viewsAtStop := ch.connectedAtStop()
	live := ch.LiveNodes()
	statesAtStop := map[string]map[string]string{}
	for _, cn := range live {
		statesAtStop[cn.Name] = map[string]string{}
		for _, r := range cn.Node.ML().VerifDump().Records {
			statesAtStop[cn.Name][r.Name] = StateNames[r.State]
		}
	}
	if !conn || len(live) < 2 {
		return
	}
	o.Judged = true
	cf := live[0].Node.Conf
	n := sc.N
	settle := detectionBound(cf, n) + 40*time.Duration(n-1)*pushPullScaleOracle(sc.PushPull, n) + sc.DeadTime
	stop := time.Now()
	check := func(limit time.Duration) bool {
		for time.Since(stop) < limit {
			time.Sleep(time.Second)
			Settle(0)
			Heartbeat()
			ch.C.CheckQuiescent()
			if ok, _ := ch.convergence(); ok {
				return true
			}
		}
		return false
	}
	if !check(settle) && !check(4*settle) {
		_, diffs := ch.convergence()
		dumps := map[string][]string{}
		for _, cn := range live {
			for _, r := range cn.Node.ML().VerifDump().Records {
				dumps[cn.Name] = append(dumps[cn.Name], recString(&r)+" name="+r.Name)
			}
		}
		key := classifyC05(ch, diffs, statesAtStop, stop)
		fail(key, "faults stopped at +%v with the live nodes' member lists connected, but after %v (4 x settle bound %v) views still differ from the live set: %+v", sc.TStop, time.Since(stop), settle, diffs)
		around := map[string][]string{}
		for _, cn := range ch.Nodes {
			for _, ln := range cn.Node.Log.Grep(0, "[INFO]", "[WARN]", "[ERR]") {
				if ln.At.After(stop.Add(-40*time.Second)) && ln.At.Before(stop.Add(3*time.Minute)) && len(around[cn.Name]) < 200 {
					around[cn.Name] = append(around[cn.Name], ln.At.Format("15:04:05.000")+" "+ln.Text)
				}
			}
		}
		o.Witness = map[string]any{"views_at_stop": viewsAtStop, "states_at_stop": statesAtStop, "dumps_at_end": dumps, "logs": ch.C.LogTails(8), "log_around_stop": around}
	}
	// at rest no node may hold a push/pull slot (each leaked one brings the node closer to refusing every exchange)
	Settle(live[0].Node.Conf.TCPTimeout + time.Second)
	for _, cn := range ch.LiveNodes() {
		if n := cn.Node.ML().VerifPushPullInFlight(); n != 0 {
			fail("pushpull-slots-leaked", "%s holds %d of its push/pull slots at rest, long after the faults (incl. cut streams) have ceased", cn.Name, n)
		}
	}
	o.Settled = time.Since(stop)
	run.Max("settle_over_bound", float64(o.Settled)/float64(settle))
	for _, p := range ch.C.Problems() {
		o.Results = append(o.Results, &c01Result{p.Key, p.What})
	}
	return
}

// classifyC05 names the failure narrowly enough for the findings register.
func classifyC05(ch *Chaos, diffs []viewDiff, statesAtStop map[string]map[string]string, stopAt time.Time) string {
	metaOnly := true
	for _, d := range diffs {
		if strings.Contains(d.Problem, "lists ") || strings.Contains(d.Problem, "suspects") {
			metaOnly = false
		}
	}
	if metaOnly {
		return "not-converged/stale-metadata"
	}
	// components at the end (by mutual listing)
	live := ch.LiveNodes()
	comp := map[string]int{}
	var compN int
	lists := map[string]map[string]bool{}
	for _, cn := range live {
		lists[cn.Name] = map[string]bool{}
		for _, n := range cn.Node.MemberNames() {
			lists[cn.Name][n] = true
		}
	}
	for _, cn := range live {
		if _, ok := comp[cn.Name]; ok {
			continue
		}
		compN++
		stack := []string{cn.Name}
		comp[cn.Name] = compN
		for len(stack) > 0 {
			x := stack[len(stack)-1]
			stack = stack[:len(stack)-1]
			for _, o := range live {
				if _, ok := comp[o.Name]; ok {
					continue
				}
				if lists[x][o.Name] || lists[o.Name][x] {
					comp[o.Name] = compN
					stack = append(stack, o.Name)
				}
			}
		}
	}
	if compN > 1 {
		// Known protocol limitation, matched narrowly: every edge that connected two of the
		// final components at T_stop was a SUSPECT entry, held by a node that the other
		// endpoint had itself already declared dead (or reaped). The holder's accusation is
		// refuted, but the refutation is gossiped only to nodes the refuter still lists.
		bridges, suspectOnly, inflight, staleSusp, unheard := 0, true, 0, 0, 0
		cf := live[0].Node.Conf
		probeWindow := time.Duration(cf.AwarenessMaxMultiplier) * cf.ProbeInterval
		for _, x := range live {
			for _, y := range live {
				if x == y || comp[x.Name] == comp[y.Name] {
					continue
				}
				st, ok := statesAtStop[x.Name][y.Name]
				if !ok || st == "dead" || st == "left" {
					continue // x did not list y at T_stop: no edge from this side
				}
				bridges++
				back, okb := statesAtStop[y.Name][x.Name]
				yDropped := !okb || back == "dead" || back == "left"
				if st == "alive" && yDropped {
					// Second registered history: the one-way entry was still alive at T_stop, but a probe of
					// it that the holder had started while the faults were on failed afterwards (the
					// suspicion is logged within one maximal probe interval of T_stop).
					hit := false
					for _, ln := range x.Node.Log.Grep(0, "Suspect "+y.Name+" has failed") {
						if ln.At.After(stopAt) && ln.At.Sub(stopAt) <= probeWindow {
							hit = true
						}
					}
					if hit {
						inflight++
						continue
					}
				}
				if st == "alive" && yDropped {
					// Third registered history: x's one-way entry for y was alive, but a neighbour z in x's final
					// component held y SUSPECT at T_stop (or suspected it right afterwards through a probe
					// begun under the faults); that suspicion spread in x's component, expired there after
					// T_stop and the dead message took x's entry with it. y refutes, but only towards nodes it lists.
					suspected, expired := false, false
					for _, z := range live {
						if comp[z.Name] != comp[x.Name] {
							continue
						}
						if z != x && statesAtStop[z.Name][y.Name] == "suspect" {
							suspected = true
						}
						for _, ln := range z.Node.Log.Grep(0, "Suspect "+y.Name+" has failed") {
							if z != x && ln.At.After(stopAt) && ln.At.Sub(stopAt) <= probeWindow {
								suspected = true
							}
						}
						for _, ln := range z.Node.Log.Grep(0, "Marking "+y.Name+" as failed, suspect timeout reached") {
							if ln.At.After(stopAt) {
								expired = true
							}
						}
					}
					hit := suspected && expired
					if hit {
						staleSusp++
						continue
					}
				}
				if st == "suspect" && !yDropped {
					// Fourth registered history: the accused y still listed the accuser x at T_stop but never got
					// to hear the accusation before x's timer ran out (its datagram copies were lost under the
					// faults; probes rescued over TCP carry no accusation). x's dead message then names an
					// incarnation below y's current one (y refuted an earlier accusation) and y ignores it
					// without re-announcing itself. Matched only if the expiry is logged in x's component after T_stop.
					// (the expiry may be logged by x itself or by a neighbour in x's final component whose dead
					// message x then accepted)
					expired := false
					for _, z := range live {
						if comp[z.Name] != comp[x.Name] {
							continue
						}
						for _, ln := range z.Node.Log.Grep(0, "Marking "+y.Name+" as failed, suspect timeout reached") {
							if ln.At.After(stopAt) {
								expired = true
							}
						}
					}
					if expired {
						unheard++
						continue
					}
				}
				if st != "suspect" || !yDropped {
					suspectOnly = false
				}
			}
		}
		if bridges > 0 && suspectOnly && unheard > 0 {
			return "bridge-suspicion-never-heard"
		}
		if bridges > 0 && suspectOnly && inflight == 0 && staleSusp == 0 {
			return "bridge-only-suspect"
		}
		if bridges > 0 && suspectOnly && staleSusp > 0 {
			return "bridge-lost-to-stale-suspicion"
		}
		if bridges > 0 && suspectOnly && inflight > 0 {
			return "bridge-lost-to-inflight-probe"
		}
		// Fifth, residual class of the same finding: at T_stop no two nodes of different final components
		// held each other ALIVE - every link between the components was an accusation or a one-way entry,
		// i.e. rested on a refutation or an anti-entropy exchange that the protocol does not retry. A split
		// although some pair across the components held each other alive is never excused.
		mutualAlive := false
		for _, x := range live {
			for _, y := range live {
				if x != y && comp[x.Name] != comp[y.Name] && statesAtStop[x.Name][y.Name] == "alive" && statesAtStop[y.Name][x.Name] == "alive" {
					mutualAlive = true
				}
			}
		}
		if bridges > 0 && !mutualAlive {
			return "split-without-mutual-alive-bridge"
		}
		return "not-converged/split"
	}
	for _, d := range diffs {
		for _, cn := range ch.Nodes {
			if !cn.Live() && strings.Contains(d.Problem, "lists") {
				for _, m := range d.Members {
					if m == cn.Name {
						return "not-converged/lists-departed-node"
					}
				}
			}
		}
	}
	return "not-converged/other"
}

func TestC05(t *testing.T) {
	run := NewRun(t, "C05", "exploration",
		"Bounded-progress restatement in virtual time. PRNG fault scripts on real clusters of 3-10 (thorough 3-20) nodes: global loss windows 10-100%, duplication, delays up to 3 s (reordering), timed partitions and one-way blocks, crashes and hung processes, same-address restarts 0.2-50 s later (incarnation restarts at 1, new metadata), take-over of a crashed node's address by a differently named node, graceful leaves, metadata updates; fault phase 30-120 s; config matrix. At T_stop faults cease; if the live nodes' Members() graph is connected the scenario is judged: within T_settle = B(C03) + 40(n-1) push/pull intervals + GossipToTheDeadTime (re-checked until 4 x T_settle) every live node must list exactly the live nodes, each with the metadata its owner's delegate currently returns, suspect nobody who is live, and list no crashed or departed node. The C02/C07 monitors run at every poll. Cell = (fault kinds present, n bucket, restart/leave/update presence, judged|skipped).")
	defer run.Finish()
	run.Assume("connectivity precondition evaluated exactly as stated (Members() at T_stop, suspects included)", "T_settle sized so that a random-peer anti-entropy edge is missed with probability < e^-40; failures are re-checked at 4 x T_settle before judging")
	n := run.Pick(128, 6400)
	judged, skipped := 0, 0
	for i := 0; i < n; i++ {
		if !run.Mine(i) {
			continue
		}
		id := fmt.Sprintf("faults/%d", i)
		if !run.Want(id) {
			continue
		}
		rng := run.RNG(id)
		sc := genFaultScn(rng, run.Pick(10, 20), time.Duration(30+rng.Intn(90))*time.Second)
		run.Journal(id, "")
		var o c05Outcome
		err := Bubble(t, func() { o = runC05(run, run.Seed()*313+int64(i), sc, rng) })
		if err != nil {
			o.Results = append(o.Results, &c01Result{"C05/bubble", err.Error()})
		}
		run.Eval(1)
		kinds := map[string]bool{}
		for _, a := range sc.Actions {
			kinds[a.Kind] = true
		}
		var ks []string
		for k := range kinds {
			if k != "heal" {
				ks = append(ks, k)
			}
		}
		sort.Strings(ks)
		nb := "n<=5"
		if sc.N > 5 {
			nb = "n>5"
		}
		j := "skipped"
		if o.Judged {
			j = "judged"
			judged++
		} else {
			skipped++
		}
		run.Cell("faults", strings.Join(ks, "+"), nb, j)
		for _, k := range ks {
			run.Cell("kind", k, j)
		}
		for _, r := range o.Results {
			w := map[string]any{"scenario": sc}
			for k, v := range o.Witness {
				w[k] = v
			}
			run.Violation(id, r.Key, r.What, w)
		}
		if i == 0 {
			run.Sample(sc)
		}
	}
	// scripted reproduction of the registered finding: one node is cut off until the majority
	// has dropped it and it holds nothing but suspect entries; then the network heals
	if id := "known/bridge-only-suspect"; run.Mine(0) && run.Want(id) {
		run.Journal(id, "")
		sc := faultScn{N: 4, PV: 5, Indirect: 3, TCPPing: true, PushPull: 3 * time.Second, DeadTime: 5 * time.Second, TStop: 10 * time.Minute,
			Actions: []faultAction{{At: 3 * time.Second, Kind: "partition", Set: []int{3}}}}
		var o c05Outcome
		armed := false
		err := Bubble(t, func() {
			o = runC05(run, run.Seed()+77, sc, rand.New(rand.NewSource(run.Seed())), func(ch *Chaos) bool {
				iso := ch.Nodes[3]
				alive, suspect := 0, 0
				for _, r := range iso.Node.ML().VerifDump().Records {
					if r.Name == iso.Name {
						continue
					}
					switch r.State {
					case memberlist.StateAlive:
						alive++
					case memberlist.StateSuspect:
						suspect++
					}
				}
				if alive > 0 || suspect == 0 {
					return false
				}
				for _, o := range ch.Nodes[:3] {
					if r := o.Node.Record(iso.Name); r != nil && r.State != memberlist.StateDead {
						return false
					}
				}
				armed = true
				return true
			})
		})
		if err != nil {
			o.Results = append(o.Results, &c01Result{"C05/bubble", err.Error()})
		}
		run.Eval(1)
		run.Cell("scripted", "bridge-only-suspect", fmt.Sprintf("armed=%v", armed))
		for _, r := range o.Results {
			w := map[string]any{"scenario": sc}
			for k, v := range o.Witness {
				w[k] = v
			}
			run.Violation(id, r.Key, r.What, w)
		}
	}
	// scripted: members leave and their names come back - one from its old address, one from another one - while
	// metadata changes; then the usual settling
	for k, pv := range []int{5, 2} {
		id := fmt.Sprintf("scripted/leave-and-return/%d", k)
		if !run.Mine(k+1) || !run.Want(id) {
			continue
		}
		run.Journal(id, "")
		sc := faultScn{N: 5, PV: pv, Indirect: 2, TCPPing: k == 0, PushPull: 4 * time.Second, DeadTime: 30 * time.Second, TStop: 90 * time.Second,
			Actions: []faultAction{{At: 4 * time.Second, Kind: "leave", A: 1}, {At: 6 * time.Second, Kind: "leave", A: 2}, {At: 9 * time.Second, Kind: "update", A: 0},
				{At: 25 * time.Second, Kind: "rejoin", A: 1, P: 1}, {At: 30 * time.Second, Kind: "rejoin", A: 2}, {At: 40 * time.Second, Kind: "update", A: 1}, {At: 50 * time.Second, Kind: "update", A: 2}}}
		var o c05Outcome
		err := Bubble(t, func() { o = runC05(run, run.Seed()+79+int64(k), sc, rand.New(rand.NewSource(run.Seed()+int64(k)))) })
		if err != nil {
			o.Results = append(o.Results, &c01Result{"C05/bubble", err.Error()})
		}
		run.Eval(1)
		run.Cell("scripted", "leave-and-return")
		for _, r := range o.Results {
			w := map[string]any{"scenario": sc}
			for kk, v := range o.Witness {
				w[kk] = v
			}
			run.Violation(id, r.Key, r.What, w)
		}
	}
	run.Count("judged", int64(judged))
	run.Count("skipped_not_connected", int64(skipped))
	if !run.Replaying() {
		for _, k := range []string{"loss", "partition", "crash", "restart", "replace", "leave", "update", "delay", "dup", "latedup", "streamcut"} {
			run.Require("kind|" + k + "|judged")
		}
	}
	run.Complete()
	if run.Violations() > 0 {
		t.Errorf("%d violation(s)", run.Violations())
	}
}
