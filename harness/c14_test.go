package harness

// C14 — inbound authentication: only traffic sealed under an installed key
// (with the node's own label as associated data) is acted on; any modified
// ciphertext has no effect or exactly the original's effect.

import (
	"bytes"
	"fmt"
	"math/rand"
	"sort"
	"strings"
	"testing"
	"time"

	"github.com/hashicorp/memberlist"
)

// effect is the canonical description of everything observable that an input caused.
type effect []string

func (e effect) String() string { return strings.Join(e, " | ") }
func (e effect) equal(o effect) bool {
	return fmt.Sprint([]string(e)) == fmt.Sprint([]string(o))
}

type c14Item struct {
	Name  string
	Path  string // packet | stream
	Plain []byte
	CRC   bool
	Key   int // 1 or 2 (which installed key sealed it)
}

// observe injects raw (packet) or writes raw (stream) and returns the effect.
func (v *victim) observe(path string, raw []byte) effect {
	before := v.digest()
	nx, ny := len(v.x.Received()), len(v.y.Received())
	v.rig.V.Del.mu.Lock()
	nm, ng := len(v.rig.V.Del.Msgs), len(v.rig.V.Del.Merged)
	v.rig.V.Del.mu.Unlock()
	var e effect
	if path == "packet" {
		v.rig.C.Net.Inject(v.rig.V.EP, v.x.EP.Addr, raw)
		Settle(1500 * time.Millisecond) // beyond ProbeTimeout: relays / nacks would have gone out
	} else {
		c := v.rig.C.Net.NewLoosePair(v.x.EP.Addr, v.rig.V.EP.Addr)
		if v.rig.V.EP.Offer(c) {
			if v.splitAt > 0 && v.splitAt < len(raw) {
				// a slow sender: the first part, a pause during which something happens at the receiver, the rest
				_, _ = c.Dialer.Write(raw[:v.splitAt])
				Settle(10 * time.Millisecond)
				if v.midStream != nil {
					v.midStream()
				}
				Settle(10 * time.Millisecond)
				_, _ = c.Dialer.Write(raw[v.splitAt:])
			} else {
				_, _ = c.Dialer.Write(raw)
			}
			Settle(20 * time.Millisecond)
			reply := drain(c.Dialer)
			c.Dialer.Close()
			if len(reply) > 0 {
				_, frames, err := ParseStream(reply, v.rig.Keys, v.cfg.Label)
				if err != nil || len(frames) == 0 {
					e = append(e, fmt.Sprintf("reply:unparsable(%d bytes)", len(reply)))
				}
				for _, f := range frames {
					switch f.Type {
					case TErr:
						e = append(e, "reply:err")
					case TAck:
						var a WAck
						_ = mpDecode(f.Body, &a)
						e = append(e, fmt.Sprintf("reply:ack:%d", a.SeqNo))
					case TPushPull:
						e = append(e, "reply:pushpull")
					default:
						e = append(e, "reply:"+TypeName(f.Type))
					}
				}
			}
			Settle(time.Second)
		}
	}
	after := v.digest()
	if d := diffDigest(before, after); d != "" {
		// delegate call counts are reported with their payloads below
		for _, part := range strings.Split(d, "; ") {
			if !strings.HasPrefix(part, "NotifyMsg") && !strings.HasPrefix(part, "MergeRemoteState") {
				e = append(e, "state:"+part)
			}
		}
	}
	v.rig.V.Del.mu.Lock()
	for _, m := range v.rig.V.Del.Msgs[nm:] {
		e = append(e, fmt.Sprintf("NotifyMsg:%x", m))
	}
	for _, m := range v.rig.V.Del.Merged[ng:] {
		e = append(e, fmt.Sprintf("MergeRemoteState:%x", m.Buf))
	}
	v.rig.V.Del.mu.Unlock()
	for _, s := range v.emittedSince(nx, ny) {
		e = append(e, "sent:"+s)
	}
	sort.Strings(e)
	return e
}

// looksPadded: block-aligned and ending in a well-formed PKCS#7 pad.
func looksPadded(p []byte) bool {
	if len(p) == 0 || len(p)%16 != 0 {
		return false
	}
	n := int(p[len(p)-1])
	if n == 0 || n > 16 || n > len(p) {
		return false
	}
	for _, b := range p[len(p)-n:] {
		if int(b) != n {
			return false
		}
	}
	return true
}

// padVariantOf: the effect is one NotifyMsg whose payload is the genuine payload with a well-formed
// PKCS#7 pad appended (grow) or with its own well-formed pad removed (!grow).
func padVariantOf(eff string, genuine []byte, grow bool) bool {
	var got []byte
	if n, _ := fmt.Sscanf(eff, "NotifyMsg:%x", &got); n != 1 {
		return false
	}
	long, short := got, genuine
	if !grow {
		long, short = genuine, got
	}
	if len(long) <= len(short) || !bytes.Equal(long[:len(short)], short) {
		return false
	}
	pad := long[len(short):]
	if len(pad) > 16 {
		return false
	}
	for _, b := range pad {
		if int(b) != len(pad) {
			return false
		}
	}
	return true
}

func c14Items(tag int) []c14Item {
	pad16 := strings.Repeat("\x10", 16)
	// user payloads whose sealed plaintext (type byte + payload) is a multiple of 16 and ends in a valid-looking pad
	u1 := fmt.Sprintf("u1-%06d-%s", tag, "0123456789abcdef0123") // 1+30 -> pad to 31+1
	for (1+len(u1)+1)%16 != 0 {
		u1 += "x"
	}
	u1 += "\x01"
	u16 := fmt.Sprintf("u16-%06d-", tag)
	for (1+len(u16))%16 != 0 {
		u16 += "y"
	}
	u16 += pad16
	x := []byte{10, 9, 1, 1}
	return []c14Item{
		{"ping", "packet", Enc(TPing, &WPing{SeqNo: uint32(710000 + tag), Node: "V", SourceAddr: x, SourcePort: 7946, SourceNode: "x"}), false, 1},
		{"ping-crc", "packet", Enc(TPing, &WPing{SeqNo: uint32(720000 + tag), Node: "V", SourceAddr: x, SourcePort: 7946, SourceNode: "x"}), true, 1},
		{"user-tail01", "packet", append([]byte{TUser}, u1...), false, 1},
		{"user-tail16", "packet", append([]byte{TUser}, u16...), false, 1},
		{"user-tail01-crc", "packet", append([]byte{TUser}, u1...), true, 1},
		{"user-key2", "packet", append([]byte{TUser}, []byte(fmt.Sprintf("sealed-under-second-key-%06d", tag))...), false, 2},
		{"alive", "packet", Enc(TAlive, &WAlive{Incarnation: 3, Node: fmt.Sprintf("c14n%d", tag), Addr: []byte{10, 9, 6, byte(tag%250 + 1)}, Port: 7946, Meta: []byte("m"), Vsn: DefaultVsn()}), false, 1},
		{"suspect-y", "packet", Enc(TSuspect, &WSuspect{Incarnation: 1, Node: "y", From: "x"}), true, 1},
		{"compound", "packet", MakeCompound([][]byte{append([]byte{TUser}, []byte(fmt.Sprintf("cmp-%06d", tag))...), Enc(TPing, &WPing{SeqNo: uint32(730000 + tag), Node: "V", SourceAddr: x, SourcePort: 7946, SourceNode: "x"})}), false, 1},
		{"stream-user", "stream", BuildUserStream([]byte(fmt.Sprintf("reliable-%06d-tail\x01", tag))), false, 1},
		{"stream-ping", "stream", Enc(TPing, &WPing{SeqNo: uint32(740000 + tag), Node: "V"}), false, 1},
		// plaintexts that merely END in a small byte: neither block-aligned nor validly padded; a receiver
		// that trusts the last byte after a version-byte flip would deliver them truncated
		{"user-tail03-unaligned", "packet", append([]byte{TUser}, []byte(fmt.Sprintf("seq-update:%06d:node-7:\x00\x00\x00\x03", tag))...), false, 1},
		{"user-tail03-badpad", "packet", append([]byte{TUser}, []byte(fmt.Sprintf("aligned:%06d:0123456789abcdef0123456789abc\x00\x00\x03", tag))...), false, 1},
		{"stream-user-tail03", "stream", BuildUserStream([]byte(fmt.Sprintf("reliable-%06d-unaligned-tail\x00\x00\x03", tag))), false, 1},
		// block-aligned plaintext ending in a run of 48 bytes of value 48 ('0'): longer than any PKCS#7 pad
		{"user-tail48x0x30", "packet", append([]byte{TUser}, []byte(fmt.Sprintf("iv-%06d:total", tag)+strings.Repeat("0", 48))...), false, 1},
		{"stream-pushpull", "stream", BuildPushPull(false, []WPushNodeState{{Name: "x", Addr: x, Port: 7946, Incarnation: 1, State: SAlive, Vsn: DefaultVsn()}}, []byte(fmt.Sprintf("state-%06d", tag))), false, 1},
	}
}

func (v *victim) sealItem(it c14Item, rng *rand.Rand) (raw []byte, verOff int) {
	key := v.k1
	if it.Key == 2 {
		key = v.k2
	}
	h := LabelHeader(v.cfg.Label)
	if v.cfg.Skip {
		h = nil // the outer layer already removed the header; the label is still the associated data
	}
	if it.Path == "packet" {
		raw = BuildPacket(PacketCfg{Label: v.cfg.Label, Key: key, EncVsn: v.cfg.EncVsn, CRC: it.CRC}, it.Plain, rng)
		raw = append(append([]byte(nil), h...), raw[len(LabelHeader(v.cfg.Label)):]...)
		return raw, len(h)
	}
	f := BuildStreamMsg(StreamCfg{Label: v.cfg.Label, Key: key, EncVsn: v.cfg.EncVsn}, it.Plain, rng)
	return append(append([]byte(nil), h...), f...), len(h) + 5
}

func runC14(run *Run, seed int64, cfg hostCfg, items []int, id string, full bool) (out []*c01Result) {
	fail := func(key, f string, a ...any) {
		if len(out) < 10 {
			out = append(out, &c01Result{"C14/" + key, fmt.Sprintf(f, a...) + " [" + cfg.String() + "]"})
		}
	}
	v, err := newVictim(seed, cfg, nil)
	if err != nil {
		if cfg.Late {
			// the only difference to the configurations that do work is when the keys were installed
			fail("late-keys/sealed-traffic-not-acted-on", "keys installed into an empty keyring after creation: traffic sealed under the primary key with the node's label is not acted on (%v)", err)
			return
		}
		fail("harness/victim", "%v", err)
		return
	}
	defer v.rig.Close()
	rng := rand.New(rand.NewSource(seed))
	k3 := bytes.Repeat([]byte{0xC3}, 16)
	tag := int(seed%1000) * 100
	n := 0
	seenKeys := map[string]bool{}
	judge := func(it c14Item, class, detail string, variant []byte, want effect) {
		n++
		run.Journal(id, fmt.Sprintf("%d %s %s %s %s", n, it.Name, class, detail, hx(variant)))
		got := v.observe(it.Path, variant)
		run.Eval(1)
		region := class
		run.Cell(it.Path, it.Name, region, fmt.Sprintf("enc=%d", cfg.EncVsn), fmt.Sprintf("label=%d", len(cfg.Label)))
		if len(got) == 0 {
			return
		}
		// Only a modification of the genuine ciphertext itself may still yield the original plaintext
		// (a bit that does not matter). Anything that is not sealed under an installed key with the
		// node's own label as associated data must have no effect at all, whatever plaintext it carries.
		mustBeEmpty := class == "cleartext" || class == "foreign-key" || class == "foreign-aad" || class == "no-aad" || class == "relabel"
		if !mustBeEmpty && got.equal(want) {
			return
		}
		// a rejected stream may be answered with the generic error reply
		if it.Path == "stream" && len(got) == 1 && got[0] == "reply:err" {
			return
		}
		key := fmt.Sprintf("%s/%s", it.Path, class)
		if class == "flip@encver" {
			key = fmt.Sprintf("%s/flip@encver/%d->%d", it.Path, cfg.EncVsn, 1-cfg.EncVsn)
			// the registered finding covers only genuine version-1 plaintexts that are block-aligned and end
			// in a well-formed PKCS#7 pad; acceptance of anything else after the flip is a different defect
			if cfg.EncVsn == 1 && !looksPadded(it.Plain) {
				key += "/not-a-valid-pad"
			}
			// ... and, for 1->0, only the delivery of the genuine user payload minus that pad; for 0->1 only
			// the delivery of the genuine user payload plus its well-formed pad
			if len(it.Plain) > 0 && it.Plain[0] == TUser && !(len(got) == 1 && padVariantOf(got[0], it.Plain[1:], cfg.EncVsn == 0)) {
				key += "/other-effect"
			}
		}
		if seenKeys[key+it.Name] {
			return
		}
		seenKeys[key+it.Name] = true
		fail(key, "a modified transmission of %q (%s %s) had an effect that is neither nothing nor the original's: got {%s}, the genuine message causes {%s}", it.Name, class, detail, got, want)
	}
	all := c14Items(tag)
	for _, ii := range items {
		it := all[ii%len(all)]
		tag++
		it = c14Items(tag)[ii%len(all)]
		raw, verOff := v.sealItem(it, rng)
		// the genuine transmission: its effect is the reference (and the positive control)
		want := v.observe(it.Path, raw)
		run.Eval(1)
		if len(want) == 0 {
			fail("harness/positive-control", "the genuine %q transmission had no observable effect", it.Name)
			continue
		}
		// the same genuine bytes again: what a replay causes NOW (membership claims are idempotent)
		again := v.observe(it.Path, raw)
		_ = again
		ref := func() effect {
			// the effect the ORIGINAL plaintext has in the current state
			r, _ := v.sealItem(it, rng)
			return v.observe(it.Path, r)
		}
		want = ref()
		// 1. every single-bit flip
		for bit := 0; bit < len(raw)*8; bit++ {
			if !full && bit >= 8*(verOff+1+12+4) && bit < 8*(len(raw)-18) && bit%13 != 0 {
				continue // quick: header, version, nonce, first body bytes and the tag densely; the body by stride
			}
			m := append([]byte(nil), raw...)
			m[bit/8] ^= 1 << uint(bit%8)
			class := "flip@body"
			switch off := bit / 8; {
			case off < verOff && it.Path == "packet":
				class = "flip@label"
			case it.Path == "stream" && off < verOff-5:
				class = "flip@label"
			case it.Path == "stream" && off < verOff:
				class = "flip@frame-header"
			case off == verOff:
				class = "flip@encver"
				if bit%8 != 0 {
					class = "flip@encver-highbits"
				}
			case off <= verOff+12:
				class = "flip@nonce"
			case off >= len(raw)-16:
				class = "flip@tag"
			}
			judge(it, class, fmt.Sprintf("bit %d", bit), m, want)
		}
		// 2. truncations
		for cut := 0; cut < len(raw); cut++ {
			if !full && cut > verOff+20 && cut%5 != 0 && cut < len(raw)-20 {
				continue
			}
			judge(it, "truncate", fmt.Sprintf("%d/%d", cut, len(raw)), raw[:cut], want)
		}
		// 3. splices with another genuine ciphertext at 16-byte boundaries
		other, _ := v.sealItem(c14Items(tag + 500)[(ii+2)%len(all)], rng)
		for off := verOff + 13; off < len(raw) && off < len(other); off += 16 {
			sp := append(append([]byte(nil), raw[:off]...), other[off:]...)
			judge(it, "splice", fmt.Sprintf("@%d", off), sp, want)
		}
		// 4. label games
		hdrLen := len(LabelHeader(cfg.Label))
		if cfg.Skip {
			hdrLen = 0
			// traffic of another cluster, sealed with ITS label as associated data and still carrying its header
			for _, lb := range []string{"green", cfg.Label} {
				var foreign []byte
				if it.Path == "packet" {
					foreign = BuildPacket(PacketCfg{Label: lb, Key: v.k1, EncVsn: cfg.EncVsn, CRC: it.CRC}, it.Plain, rng)
				} else {
					foreign = append(LabelHeader(lb), BuildStreamMsg(StreamCfg{Label: lb, Key: v.k1, EncVsn: cfg.EncVsn}, it.Plain, rng)...)
				}
				judge(it, "relabel", fmt.Sprintf("header %q present although the inbound check is delegated", lb), foreign, want)
			}
		}
		body := raw[hdrLen:]
		for _, lb := range []string{"other", cfg.Label + "x", "", cfg.Label + cfg.Label} {
			if lb == cfg.Label || (cfg.Skip && lb == "") {
				continue // identical to the genuine form
			}
			judge(it, "relabel", fmt.Sprintf("%q", lb), append(LabelHeader(lb), body...), want)
		}
		if cfg.Label != "" {
			judge(it, "relabel", "doubled header", append(LabelHeader(cfg.Label), raw...), want)
		}
		// traffic of another logical cluster that shares the key: sealed with ITS label as associated data
		if !cfg.Skip {
			for _, lb := range []string{"other", cfg.Label + "x"} {
				var foreign []byte
				if it.Path == "packet" {
					foreign = BuildPacket(PacketCfg{Label: lb, Key: v.k1, EncVsn: cfg.EncVsn, CRC: it.CRC}, it.Plain, rng)
				} else {
					foreign = append(LabelHeader(lb), BuildStreamMsg(StreamCfg{Label: lb, Key: v.k1, EncVsn: cfg.EncVsn}, it.Plain, rng)...)
				}
				judge(it, "relabel", fmt.Sprintf("sealed for label %q", lb), foreign, want)
			}
		}
		// 5. foreign key, cleartext
		if it.Path == "packet" {
			judge(it, "foreign-key", "k3", BuildPacket(PacketCfg{Label: cfg.Label, Key: k3, EncVsn: cfg.EncVsn, CRC: it.CRC}, it.Plain, rng), want)
			judge(it, "cleartext", "", BuildPacket(PacketCfg{Label: cfg.Label, CRC: it.CRC}, it.Plain, rng), want)
			// sealed with another label as associated data but carrying ours
			judge(it, "foreign-aad", "", append(LabelHeader(cfg.Label), Seal(cfg.EncVsn, v.k1, it.Plain, []byte(cfg.Label+"z"), rng)...), want)
			if len(cfg.Label) > 0 {
				// ... and with a label of the same length that differs in its last byte only
				near := cfg.Label[:len(cfg.Label)-1] + string(cfg.Label[len(cfg.Label)-1]^1)
				judge(it, "foreign-aad", "last label byte differs", append(LabelHeader(cfg.Label), Seal(cfg.EncVsn, v.k1, it.Plain, []byte(near), rng)...), want)
			}
			if cfg.Label != "" {
				hdr := LabelHeader(cfg.Label)
				if cfg.Skip {
					hdr = nil
				}
				pl := it.Plain
				if it.CRC {
					pl = AddCRC(pl)
				}
				judge(it, "no-aad", "sealed under an installed key but without the label as associated data", append(append([]byte(nil), hdr...), Seal(cfg.EncVsn, v.k1, pl, nil, rng)...), want)
			}
		} else {
			judge(it, "foreign-key", "k3", append(LabelHeader(cfg.Label), BuildStreamMsg(StreamCfg{Label: cfg.Label, Key: k3, EncVsn: cfg.EncVsn}, it.Plain, rng)...), want)
			judge(it, "cleartext", "", append(LabelHeader(cfg.Label), it.Plain...), want)
			judge(it, "foreign-aad", "", append(LabelHeader(cfg.Label), BuildStreamMsg(StreamCfg{Label: cfg.Label + "z", Key: v.k1, EncVsn: cfg.EncVsn}, it.Plain, rng)...), want)
			if len(cfg.Label) > 0 {
				near := cfg.Label[:len(cfg.Label)-1] + string(cfg.Label[len(cfg.Label)-1]^1)
				judge(it, "foreign-aad", "last label byte differs", append(LabelHeader(cfg.Label), BuildStreamMsg(StreamCfg{Label: near, Key: v.k1, EncVsn: cfg.EncVsn}, it.Plain, rng)...), want)
			}
		}
	}
	// 5b. a genuine message is still waiting for the application (the delegate is busy with an earlier one) when
	// transmissions that do not authenticate arrive: it must reach the delegate unchanged afterwards
	if cfg.EncVsn >= 0 {
		gate := make(chan struct{})
		v.rig.V.Del.mu.Lock()
		v.rig.V.Del.Gate = gate
		n0 := len(v.rig.V.Del.Msgs)
		v.rig.V.Del.mu.Unlock()
		first := append([]byte{TUser}, []byte(fmt.Sprintf("held-by-the-delegate-%d", tag))...)
		second := append([]byte{TUser}, []byte(fmt.Sprintf("waiting-behind-it-%d-0123456789abcdef0123456789abcdef", tag))...)
		inject := func(raw []byte) { v.rig.C.Net.Inject(v.rig.V.EP, v.x.EP.Addr, raw); Settle(time.Millisecond) }
		inject(v.wrapPacket(first, false))
		inject(v.wrapPacket(second, true))
		genuine := v.wrapPacket(append([]byte{TUser}, []byte("a-third-one-whose-copy-is-tampered-with")...), false)
		bad := append([]byte(nil), genuine...)
		bad[len(bad)-1] ^= 0x40 // the tag
		inject(bad)
		inject(BuildPacket(PacketCfg{Label: cfg.Label, Key: k3, EncVsn: cfg.EncVsn}, second, rng)) // foreign key
		if !cfg.Skip {
			inject(append(LabelHeader(cfg.Label), second...)) // clear text
		}
		close(gate)
		Settle(50 * time.Millisecond)
		v.rig.V.Del.mu.Lock()
		v.rig.V.Del.Gate = nil
		got := append([][]byte(nil), v.rig.V.Del.Msgs[n0:]...)
		v.rig.V.Del.mu.Unlock()
		run.Cell("packet", "unauthentic-while-genuine-waits", fmt.Sprintf("enc=%d", cfg.EncVsn))
		run.Eval(1)
		want := [][]byte{first[1:], second[1:]}
		ok := len(got) == 2
		for _, w := range want {
			found := false
			for _, g := range got {
				if bytes.Equal(g, w) {
					found = true
				}
			}
			ok = ok && found
		}
		if !ok {
			fail("packet/unauthentic-while-genuine-waits", "two genuine user messages were waiting for a busy delegate when a tampered copy, a foreign-key packet and a clear-text packet arrived; the delegate then received %d message(s): %q (sent %q)", len(got), got, want)
		}
	}
	// 6a. ... also when it is removed while a stream sealed under it is still arriving: the sender has sent the frame
	// header (or part of the body), pauses, RemoveKey completes, the rest arrives
	if cfg.EncVsn >= 0 {
		ring := v.rig.V.Conf.Keyring
		hdr := v.header()
		for vi, off := range []int{1, 3, 5, 21} {
			plain := BuildUserStream([]byte(fmt.Sprintf("sealed-under-second-key-%d-%d", tag, vi)))
			raw := append(append([]byte(nil), hdr...), BuildStreamMsg(StreamCfg{Label: cfg.Label, Key: v.k2, EncVsn: cfg.EncVsn}, plain, rng)...)
			if vi == 0 {
				// positive control: the pause alone does not matter
				v.splitAt, v.midStream = len(hdr)+off, nil
				if e := v.observe("stream", raw); len(e) != 1 || !strings.HasPrefix(e[0], "NotifyMsg:") {
					fail("harness/positive-control", "a stream under the second installed key, sent in two parts, was not delivered: {%s}", e)
				}
				plain = BuildUserStream([]byte(fmt.Sprintf("sealed-under-second-key-%d-%d-again", tag, vi)))
				raw = append(append([]byte(nil), hdr...), BuildStreamMsg(StreamCfg{Label: cfg.Label, Key: v.k2, EncVsn: cfg.EncVsn}, plain, rng)...)
			}
			v.splitAt, v.midStream = len(hdr)+off, func() { _ = ring.RemoveKey(v.k2) }
			e := v.observe("stream", raw)
			v.splitAt, v.midStream = 0, nil
			run.Cell("stream", "removed-key-mid-stream", fmt.Sprintf("split@%d", off))
			run.Eval(1)
			if !(len(e) == 0 || len(e) == 1 && e[0] == "reply:err") {
				fail("stream/removed-key-mid-stream", "a stream sealed under a key that RemoveKey removed after %d byte(s) of the frame had arrived (and before the rest did) was acted on: {%s}", off, e)
			}
			_ = ring.AddKey(v.k2)
		}
	}
	// 6. a key removed from the ring no longer opens anything (also while rotation calls run concurrently)
	{
		it := c14Items(tag + 900)[5] // sealed under K2
		raw, _ := v.sealItem(it, rng)
		if e := v.observe("packet", raw); len(e) == 0 {
			fail("harness/positive-control", "traffic under the second installed key was not accepted")
		}
		ring := v.rig.V.Conf.Keyring
		done := make(chan struct{})
		go func() {
			for i := 0; i < 50; i++ {
				_ = ring.AddKey(k3)
				_ = ring.RemoveKey(k3)
			}
			close(done)
		}()
		_ = ring.RemoveKey(v.k2)
		<-done
		raw2, _ := v.sealItem(c14Items(tag + 901)[5], rng)
		run.Cell("packet", "removed-key")
		run.Eval(1)
		if e := v.observe("packet", raw2); len(e) != 0 {
			fail("packet/removed-key", "traffic sealed under a key that RemoveKey had removed was acted on: {%s}", e)
		}
		// and the foreign key that was added and removed in between must not open anything either
		fk := BuildPacket(PacketCfg{Label: cfg.Label, Key: k3, EncVsn: cfg.EncVsn}, c14Items(tag + 902)[2].Plain, rng)
		if e := v.observe("packet", fk); len(e) != 0 {
			fail("packet/removed-key", "traffic sealed under a key that was added and removed again was acted on: {%s}", e)
		}
	}
	v.rig.C.CheckQuiescent()
	for _, p := range v.rig.C.Problems() {
		out = append(out, &c01Result{p.Key, p.What})
	}
	return
}

func TestC14(t *testing.T) {
	run := NewRun(t, "C14", "fault_enumeration",
		"A real node with keyring {K1 primary, K2}, GossipVerifyIncoming on, label none/short, encryption v1 and v0, every ticker disabled (so every emitted byte is a reaction). Genuine transmissions built by the oracle-side codec (ping with/without checksum header, user messages whose plaintext is a multiple of 16 and ends in PKCS#7-looking tails, a user message under K2, alive, suspect, compound; stream user message, stream ping, push/pull). For each: every single bit of the whole transmission flipped (label header, version byte, nonce, body, tag; stream frame type and length prefix), every truncation, splices with another genuine ciphertext at 16-byte boundaries, replay under other / extended / no / doubled label, sealed under a foreign key, sealed with a different label as associated data, sent in clear; plus traffic under a key that RemoveKey removed while AddKey/RemoveKey calls run concurrently. Effect = digest diff + every delegate call with its argument + every packet the node emits in the next 1.5 s + decoded stream reply. Oracle: effect(variant) is empty (a rejected stream may get the generic error reply) or equals the effect the genuine plaintext has in the same state. Cell = (path, item, modified region, enc version, label).")
	defer run.Finish()
	run.Assume("the genuine transmission's own effect is measured on the same victim immediately before the variants (positive control); membership claims are idempotent so the reference effect is re-measured after the first application")
	cfgs := []hostCfg{{"", 1, true, false, false, false}, {"c14", 1, true, false, false, false}, {"c14", 0, true, false, false, false}, {"", 0, true, false, false, false}, {"c14", 1, true, false, true, false}, {strings.Repeat("q", 255), 1, true, false, false, false},
		{"", 1, true, false, false, true}, {"c14", 0, true, false, false, true}}
	k := 0
	for rep := 0; rep < run.Pick(1, 80); rep++ {
		for ci, cfg := range cfgs {
			for g := 0; g < 4; g++ {
				k++
				id := fmt.Sprintf("cfg%d/group%d/rep%d", ci, g, rep)
				if !run.Mine(k) || !run.Want(id) {
					continue
				}
				run.Journal(id, "start")
				items := []int{g * 4, g*4 + 1, g*4 + 2, g*4 + 3}
				var res []*c01Result
				err := Bubble(t, func() { res = runC14(run, run.Seed()*41+int64(ci*10+g)+int64(rep)*977, cfg, items, id, run.Thorough()) })
				if err != nil {
					res = append(res, &c01Result{"C14/bubble", err.Error()})
				}
				for _, r := range res {
					run.Violation(id, r.Key, r.What, map[string]any{"cfg": cfg.String()})
				}
			}
		}
	}
	run.Sample(map[string]any{"example": "user-tail01 packet, bit 0 of the version byte flipped; every bit of nonce and tag; truncation at every byte"})
	run.Complete()
	if run.Violations() > 0 {
		t.Errorf("%d violation(s)", run.Violations())
	}
}

var _ = memberlist.StateAlive
