package harness

// Rig: one real node under test ("V") surrounded by fake peers driven by the
// oracle-side codec. Fake peers own endpoints on the simulated network, record
// everything V sends them and answer only what the scenario tells them to.

import (
	"fmt"
	"math/rand"
	"sync"
	"time"

	"github.com/hashicorp/memberlist"
)

// RecvPacket is a packet a fake peer received, classified.
type RecvPacket struct {
	At   time.Time
	From string
	Raw  []byte
	Info *PacketInfo
}

type FakePeer struct {
	Name string
	EP   *Endpoint
	rig  *Rig

	mu       sync.Mutex
	Packets  []RecvPacket
	Streams  []*ConnEnd // accepted connections
	AutoAck  bool       // answer pings addressed to us
	AckDelay time.Duration
	OnPacket func(p RecvPacket) // called for every received packet (after recording)
	OnStream func(c *ConnEnd)   // nil: the connection is just recorded (and left open)
	stop     chan struct{}
}

// Rig is the single-node test bench.
type Rig struct {
	C        *Cluster
	V        *SimNode
	Peers    map[string]*FakePeer
	Rng      *rand.Rand
	PCfg     PacketCfg // how fake peers wrap packets so that V accepts them
	SCfg     StreamCfg
	Keys     [][]byte // keys V accepts / uses (for parsing V's output)
	NoHeader bool     // V runs with SkipInboundLabelCheck: inbound traffic carries no label header
}

// RigOpts configures V.
type RigOpts struct {
	Seed     int64
	Spec     NodeSpec
	Label    string
	Key      []byte // encryption key (nil = none)
	Compress bool
	PVer     uint8 // protocol version of V (0 = max)
}

func NewRig(o RigOpts) (*Rig, error) {
	c := NewCluster(o.Seed)
	r := &Rig{C: c, Peers: map[string]*FakePeer{}, Rng: rand.New(rand.NewSource(o.Seed ^ 0x5eed))}
	spec := o.Spec
	if spec.Name == "" {
		spec.Name = "V"
	}
	user := spec.Mutate
	pver := o.PVer
	if pver == 0 {
		pver = memberlist.ProtocolVersionMax
	}
	spec.Mutate = func(cf *memberlist.Config) {
		cf.Label = o.Label
		cf.EnableCompression = o.Compress
		cf.ProtocolVersion = pver
		if o.Key != nil {
			ring, err := memberlist.NewKeyring(nil, o.Key)
			if err != nil {
				panic(err)
			}
			cf.Keyring = ring
		}
		if user != nil {
			user(cf)
		}
	}
	v, err := c.Add(spec)
	if err != nil {
		return nil, err
	}
	r.V = v
	encv := 1
	if pver == 1 {
		encv = 0
	}
	r.PCfg = PacketCfg{Label: o.Label, Key: o.Key, EncVsn: encv, Compress: false, CRC: false}
	r.SCfg = StreamCfg{Label: o.Label, Key: o.Key, EncVsn: encv, Compress: false}
	if o.Key != nil {
		r.Keys = [][]byte{o.Key}
	}
	return r, nil
}

// AddPeer registers a fake peer endpoint (V does not know it yet).
func (r *Rig) AddPeer(name, ip string, port int) *FakePeer {
	fp := &FakePeer{Name: name, rig: r, stop: make(chan struct{})}
	fp.EP = r.C.Net.NewEndpoint(name, ip, port)
	r.Peers[name] = fp
	go fp.loop()
	return fp
}

func (fp *FakePeer) loop() {
	for {
		select {
		case <-fp.stop:
			return
		case pkt := <-fp.EP.packetCh:
			rp := RecvPacket{At: time.Now(), From: pkt.From.String(), Raw: pkt.Buf, Info: ParsePacket(pkt.Buf, fp.rig.Keys)}
			fp.mu.Lock()
			fp.Packets = append(fp.Packets, rp)
			auto, cb, delay := fp.AutoAck, fp.OnPacket, fp.AckDelay
			fp.mu.Unlock()
			if auto && rp.Info.Err == nil {
				for _, l := range rp.Info.Leaves {
					if l.Type != TPing {
						continue
					}
					var p WPing
					if mpDecode(l.Body, &p) != nil || (p.Node != "" && p.Node != fp.Name) {
						continue
					}
					ack := Enc(TAck, &WAck{SeqNo: p.SeqNo})
					fp.SendAfter(ack, delay)
				}
			}
			if cb != nil {
				cb(rp)
			}
		case conn := <-fp.EP.streamCh:
			ce := conn.(*ConnEnd)
			fp.mu.Lock()
			fp.Streams = append(fp.Streams, ce)
			cb := fp.OnStream
			fp.mu.Unlock()
			if cb != nil {
				go cb(ce)
			}
		}
	}
}

func (fp *FakePeer) Stop() {
	select {
	case <-fp.stop:
	default:
		close(fp.stop)
	}
}

// Received returns a snapshot of the packets received so far.
func (fp *FakePeer) Received() []RecvPacket {
	fp.mu.Lock()
	defer fp.mu.Unlock()
	return append([]RecvPacket(nil), fp.Packets...)
}

// Send delivers msg (a complete plaintext message) to V, wrapped per the rig config.
func (fp *FakePeer) Send(msg []byte) { fp.SendAfter(msg, 0) }

func (fp *FakePeer) SendAfter(msg []byte, d time.Duration) {
	r := fp.rig
	var raw []byte
	r.C.Net.Rand(func(rng *rand.Rand) { raw = BuildPacket(r.PCfg, msg, rng) })
	if r.NoHeader {
		raw = raw[len(LabelHeader(r.PCfg.Label)):]
	}
	r.C.Net.InjectAfter(r.V.EP, fp.EP.Addr, raw, d)
}

// SendRaw delivers raw bytes to V as a datagram from this peer.
func (fp *FakePeer) SendRaw(raw []byte) {
	fp.rig.C.Net.Inject(fp.rig.V.EP, fp.EP.Addr, raw)
}

// Dial opens a stream to V and writes the label header if configured.
func (fp *FakePeer) Dial() (*ConnEnd, error) {
	c, err := fp.EP.DialAddressTimeout(memberlist.Address{Addr: fp.rig.V.EP.Addr, Name: fp.rig.V.Name}, time.Second)
	if err != nil {
		return nil, err
	}
	ce := c.(*ConnEnd)
	if h := LabelHeader(fp.rig.SCfg.Label); h != nil && !fp.rig.NoHeader {
		_, _ = ce.Write(h)
	}
	return ce, nil
}

// PushPull performs a fake-peer initiated state exchange with V and returns
// what V answered (parsed frames of V's side).
func (fp *FakePeer) PushPull(join bool, nodes []WPushNodeState, user []byte) (frames []StreamFrame, raw []byte, err error) {
	ce, err := fp.Dial()
	if err != nil {
		return nil, nil, err
	}
	defer ce.Close()
	r := fp.rig
	var frame []byte
	r.C.Net.Rand(func(rng *rand.Rand) { frame = BuildStreamMsg(r.SCfg, BuildPushPull(join, nodes, user), rng) })
	_, _ = ce.Write(frame)
	Settle(50 * time.Microsecond)
	raw = drain(ce)
	_, frames, err = ParseStream(raw, r.Keys, r.SCfg.Label)
	return
}

// PushPullBlocking is PushPull for use from helper goroutines: it never calls
// synctest.Wait (only one goroutine may), it just reads until V closes.
func (fp *FakePeer) PushPullBlocking(join bool, nodes []WPushNodeState, user []byte) {
	ce, err := fp.Dial()
	if err != nil {
		return
	}
	defer ce.Close()
	r := fp.rig
	var frame []byte
	r.C.Net.Rand(func(rng *rand.Rand) { frame = BuildStreamMsg(r.SCfg, BuildPushPull(join, nodes, user), rng) })
	_, _ = ce.Write(frame)
	_ = ReadAllUntil(ce, 5*time.Second)
}

// drain returns whatever is readable right now without blocking.
func drain(ce *ConnEnd) []byte {
	_ = ce.SetReadDeadline(time.Now().Add(time.Nanosecond))
	var out []byte
	buf := make([]byte, 65536)
	for {
		n, err := ce.Read(buf)
		out = append(out, buf[:n]...)
		if err != nil {
			break
		}
	}
	_ = ce.SetReadDeadline(time.Time{})
	return out
}

// Self returns the push/pull entry describing this fake peer as alive.
func (fp *FakePeer) Self(inc uint32) WPushNodeState {
	return WPushNodeState{Name: fp.Name, Addr: []byte(fp.EP.IP), Port: uint16(fp.EP.Port), Incarnation: inc, State: SAlive, Vsn: DefaultVsn()}
}

func DefaultVsn() []uint8 { return []uint8{1, 5, 5, 0, 0, 0} }

// Introduce makes V know the fake peer as an alive member (via an alive packet).
func (r *Rig) Introduce(fp *FakePeer, inc uint32) {
	fp.Send(Enc(TAlive, &WAlive{Incarnation: inc, Node: fp.Name, Addr: []byte(fp.EP.IP), Port: uint16(fp.EP.Port), Vsn: DefaultVsn()}))
}

// Close tears the rig down; returns leaked memberlist goroutines.
func (r *Rig) Close() []string {
	for _, fp := range r.Peers {
		fp.Stop()
	}
	return r.C.Drain()
}

// SentTo returns the packets V sent (as recorded on the tap) since index from.
func (r *Rig) SentBy(from int) []*PacketEvent {
	var out []*PacketEvent
	for _, p := range r.C.Net.Packets()[from:] {
		if p.From == r.V.EP.Addr {
			out = append(out, p)
		}
	}
	return out
}

// Snapshot of everything observable about V.
type Snapshot struct {
	View      memberlist.VerifView
	Members   map[string]memberInfo
	Events    int
	Queued    []memberlist.VerifQueuedMsg
	Health    int
	Msgs      int
	Merged    int
	Conflicts int
	Susp      map[string]memberlist.VerifSuspicionInfo
}

func (r *Rig) Snap() Snapshot {
	m := r.V.ML()
	s := Snapshot{View: m.VerifDump(), Members: map[string]memberInfo{}, Queued: m.VerifQueued(), Health: m.GetHealthScore()}
	live := liveOf(s.View)
	for _, mb := range m.Members() {
		s.Members[mb.Name] = live[mb.Name] // names via the public API, fields from the locked dump
	}
	s.Susp = map[string]memberlist.VerifSuspicionInfo{}
	for _, rec := range s.View.Records {
		if rec.HasTimer {
			if si, ok := m.VerifSuspicionOf(rec.Name); ok {
				s.Susp[rec.Name] = si
			}
		}
	}
	if r.V.Ev != nil {
		s.Events = int(r.V.Ev.Events.Load())
	}
	if r.V.Del != nil {
		r.V.Del.mu.Lock()
		s.Msgs = len(r.V.Del.Msgs)
		s.Merged = len(r.V.Del.Merged)
		r.V.Del.mu.Unlock()
	}
	r.V.mu.Lock()
	s.Conflicts = len(r.V.Conflicts)
	r.V.mu.Unlock()
	return s
}

func (s Snapshot) Rec(name string) *memberlist.VerifRecord {
	for i := range s.View.Records {
		if s.View.Records[i].Name == name {
			return &s.View.Records[i]
		}
	}
	return nil
}

// QueuedAbout returns the queued broadcast payloads whose subject is name.
func (s Snapshot) QueuedAbout(name string) [][]byte {
	var out [][]byte
	for _, q := range s.Queued {
		if q.Name == name {
			out = append(out, q.Msg)
		}
	}
	return out
}

func recString(r *memberlist.VerifRecord) string {
	if r == nil {
		return "absent"
	}
	return fmt.Sprintf("%s@%d addr=%s:%d meta=%q vsn=%v timer=%v", StateNames[r.State], r.Incarnation, ipString(r.Addr), r.Port, r.Meta, r.Vsn, r.HasTimer)
}
