package harness

// C13 — hostile bytes never crash, hang, or bypass the documented resource caps.

import (
	"bytes"
	"encoding/binary"
	"fmt"
	"math/rand"
	"runtime"
	"sort"
	"testing"
	"time"

	"github.com/hashicorp/memberlist"
)

var c13Cfgs = []hostCfg{
	{"", -1, true, false, false, false}, {"lab", -1, true, true, false, false}, {"", 1, true, false, false, false}, {"lab", 1, true, true, false, false},
	{"", 0, true, false, false, false}, {"lab", 0, true, false, false, false}, {"", 1, false, false, false, false}, {"lab", 0, false, true, false, false},
	{"lab", -1, true, false, true, false}, {"lab", 1, true, true, true, false},
	{"lab", 1, true, false, false, true},
}

type c13State struct {
	run  *Run
	v    *victim
	id   string
	cfgI int
	fail func(key, f string, a ...any)
	n    int
}

// liveness: a genuine ping on both listeners must still be answered.
func (s *c13State) liveness(where string) bool {
	v := s.v
	seq := uint32(900000 + s.n)
	nx := len(v.x.Received())
	v.rig.C.Net.Inject(v.rig.V.EP, v.x.EP.Addr, v.wrapPacket(Enc(TPing, &WPing{SeqNo: seq, Node: "V", SourceAddr: []byte{10, 9, 1, 1}, SourcePort: 7946, SourceNode: "x"}), false))
	Settle(2 * time.Millisecond)
	acked := false
	for _, p := range v.x.Received()[nx:] {
		for _, l := range p.Info.Leaves {
			if l.Type == TAck {
				var a WAck
				if mpDecode(l.Body, &a) == nil && a.SeqNo == seq {
					acked = true
				}
			}
		}
	}
	if !acked {
		s.fail("packet-listener-dead", "%s: a genuine ping is no longer acknowledged (packet listener blocked or dead)", where)
		return false
	}
	ce, err := v.x.EP.DialAddressTimeout(memberlist.Address{Addr: v.rig.V.EP.Addr, Name: "V"}, time.Second)
	if err != nil {
		s.fail("stream-listener-dead", "%s: cannot connect to the stream listener: %v", where, err)
		return false
	}
	c := ce.(*ConnEnd)
	h, f := v.wrapStream(Enc(TPing, &WPing{SeqNo: seq + 1, Node: "V"}), false)
	_, _ = c.Write(append(h, f...))
	Settle(2 * time.Millisecond)
	raw := drain(c)
	c.Close()
	_, frames, perr := ParseStream(raw, v.rig.Keys, v.cfg.Label)
	ok := false
	for _, fr := range frames {
		if fr.Type == TAck {
			var a WAck
			if mpDecode(fr.Body, &a) == nil && a.SeqNo == seq+1 {
				ok = true
			}
		}
	}
	if !ok {
		s.fail("stream-listener-dead", "%s: a genuine stream ping got no ack (reply %d bytes, parse err %v)", where, len(raw), perr)
		return false
	}
	return true
}

// leaks: after every deadline has passed nothing may be left behind.
func (s *c13State) leaks(where string, baseGor int) bool {
	v := s.v
	Settle(v.rig.V.Conf.TCPTimeout + 1500*time.Millisecond)
	open := 0
	for _, c := range v.rig.C.Net.Conns() {
		if c.AccAddr == v.rig.V.EP.Addr && !c.Acceptor.IsClosed() {
			open++
		}
	}
	if open > 0 {
		s.fail("conn-leak", "%s: %d inbound connections are still open %v after the last input (TCPTimeout %v)", where, open, v.rig.V.Conf.TCPTimeout+1500*time.Millisecond, v.rig.V.Conf.TCPTimeout)
		return false
	}
	m := v.rig.V.ML()
	if n := m.VerifAckHandlers(); n != 0 {
		s.fail("ackhandler-leak", "%s: %d pending-probe records left", where, n)
		return false
	}
	if n := m.VerifPushPullInFlight(); n != 0 {
		s.fail("pushpull-counter-leak", "%s: push/pull in-flight counter is %d with no stream open", where, n)
		return false
	}
	if g := len(MemberlistGoroutines()); g > baseGor {
		s.fail("goroutine-leak", "%s: %d memberlist goroutines, baseline %d", where, g, baseGor)
		return false
	}
	return true
}

func runC13Packets(run *Run, seed int64, cfgI int, id string, full bool) (out []*c01Result) {
	cfg := c13Cfgs[cfgI]
	fail := func(key, f string, a ...any) {
		if len(out) < 6 {
			out = append(out, &c01Result{"C13/" + key, fmt.Sprintf(f, a...) + " [" + cfg.String() + "]"})
		}
	}
	v, err := newVictim(seed, cfg, nil)
	if err != nil {
		fail("harness/victim", "%v", err)
		return
	}
	defer v.rig.Close()
	s := &c13State{run: run, v: v, id: id, cfgI: cfgI, fail: fail}
	rng := rand.New(rand.NewSource(seed))
	baseGor := len(MemberlistGoroutines())
	if !s.liveness("before any hostile input") {
		return
	}
	// positive control: genuine messages have their effect
	d0 := v.digest()
	for _, m := range []string{"user", "alive"} {
		v.rig.C.Net.Inject(v.rig.V.EP, v.x.EP.Addr, v.wrapPacket(genuinePacketMsgs(rng, 1)[m], true))
	}
	Settle(time.Millisecond)
	if d1 := v.digest(); d1.Msgs == d0.Msgs || d1.Members == d0.Members {
		fail("harness/positive-control", "genuine user/alive packets had no effect: the corpus is not genuine for this configuration")
		return
	}
	inject := func(class, name string, raw []byte) bool {
		s.n++
		run.Journal(id, fmt.Sprintf("%d %s %s %s", s.n, class, name, hx(raw)))
		dec, why := v.decodableLeaves(raw)
		before := v.digest()
		v.rig.C.Net.Inject(v.rig.V.EP, v.x.EP.Addr, raw)
		Settle(30 * time.Microsecond)
		run.Eval(1)
		layer := why
		run.Cell("packet", class, fmt.Sprintf("enc=%d", cfg.EncVsn), "reached="+layer)
		if !dec {
			if after := v.digest(); after != before {
				fail("undecodable-had-effect/"+class, "input #%d (%s of %s, %d bytes, oracle: %s) changed the node: %s; input %s", s.n, class, name, len(raw), why, diffDigest(before, after), hx(raw))
				return false
			}
		}
		if s.n%256 == 0 {
			hi, lo := v.rig.V.ML().VerifHandoffDepths()
			if hi > v.rig.V.Conf.HandoffQueueDepth || lo > v.rig.V.Conf.HandoffQueueDepth {
				fail("handoff-depth", "handoff queues hold %d/%d messages, configured depth %d", hi, lo, v.rig.V.Conf.HandoffQueueDepth)
				return false
			}
			if !s.liveness(fmt.Sprintf("after input #%d", s.n)) {
				return false
			}
		}
		return true
	}
	tag := 10
	names := []string{"ping", "indirect", "ack", "nack", "suspect", "alive", "dead", "user", "user1", "compound", "compress"}
	for _, name := range names {
		for _, crc := range []bool{false, true} {
			tag++
			raw := v.wrapPacket(genuinePacketMsgs(rng, tag)[name], crc)
			for _, mu := range mutatePacket(raw, rng, full) {
				if !inject(mu.Class, name, mu.Buf) {
					return
				}
			}
		}
	}
	// structurally hostile plaintext, correctly wrapped so that it reaches the inner decoders
	hp := hostilePlain(rng)
	var hn []string
	for k := range hp {
		hn = append(hn, k)
	}
	sort.Strings(hn)
	for _, k := range hn {
		for _, crc := range []bool{false, true} {
			if !inject("hostile-plain", k, v.wrapPacket(hp[k], crc)) {
				return
			}
		}
	}
	// decompression bomb on the packet path (beyond the 40 MiB cap once inflated)
	if cfgI%4 == 0 || full {
		bomb := LZWCompress(append([]byte{TUser}, make([]byte, 41<<20)...))
		var ms0, ms1 runtime.MemStats
		runtime.ReadMemStats(&ms0)
		ok := inject("lzw-bomb", "41MiB-of-zeros", v.wrapPacket(bomb, false))
		runtime.GC()
		runtime.ReadMemStats(&ms1)
		if !ok {
			return
		}
		if g := int64(ms1.HeapAlloc) - int64(ms0.HeapAlloc); g > 256<<20 {
			fail("heap-growth", "heap grew by %d MiB after a decompression bomb was refused", g>>20)
		}
		run.Cell("packet", "lzw-bomb")
	}
	s.liveness("after the packet corpus")
	s.leaks("after the packet corpus", baseGor)
	v.rig.C.CheckQuiescent()
	for _, p := range v.rig.C.Problems() {
		out = append(out, &c01Result{p.Key, p.What})
	}
	return
}

// streamInput writes raw to a fresh connection to V; fin=true half-closes, otherwise the peer just stalls.
func (s *c13State) streamInput(raw []byte, fin bool) *Conn {
	v := s.v
	c := v.rig.C.Net.NewLoosePair(v.x.EP.Addr, v.rig.V.EP.Addr)
	if !v.rig.V.EP.Offer(c) {
		return nil
	}
	if len(raw) > 0 {
		_, _ = c.Dialer.Write(raw)
	}
	if fin {
		c.Dialer.CloseWrite()
	}
	return c
}

func runC13Streams(run *Run, seed int64, cfgI int, id string, full bool) (out []*c01Result) {
	cfg := c13Cfgs[cfgI]
	fail := func(key, f string, a ...any) {
		if len(out) < 6 {
			out = append(out, &c01Result{"C13/" + key, fmt.Sprintf(f, a...) + " [" + cfg.String() + "]"})
		}
	}
	v, err := newVictim(seed, cfg, nil)
	if err != nil {
		fail("harness/victim", "%v", err)
		return
	}
	defer v.rig.Close()
	s := &c13State{run: run, v: v, id: id, cfgI: cfgI, fail: fail}
	rng := rand.New(rand.NewSource(seed))
	baseGor := len(MemberlistGoroutines())
	if !s.liveness("before any hostile stream") {
		return
	}
	// positive control
	d0 := v.digest()
	h, f := v.wrapStream(genuineStreamMsgs(1)["pushpull"], cfg.Compress)
	if c := s.streamInput(append(h, f...), false); c != nil {
		Settle(time.Millisecond)
		c.Dialer.Close()
	}
	if d1 := v.digest(); d1.Members == d0.Members || d1.Merged == d0.Merged {
		fail("harness/positive-control", "a genuine push/pull had no effect")
		return
	}
	names := []string{"pushpull", "pushpull-join", "user", "ping"}
	batch := 0
	for ti, name := range names {
		h, f := v.wrapStream(genuineStreamMsgs(100 + ti)[name], cfg.Compress && ti%2 == 0)
		whole := append(append([]byte(nil), h...), f...)
		// every cut point: the message is incomplete, nothing may change; the connection must end
		for cut := 0; cut < len(whole); cut++ {
			if !full && cut > 24 && cut%9 != 0 && cut < len(whole)-12 {
				continue
			}
			for _, fin := range []bool{true, false} {
				s.n++
				run.Journal(id, fmt.Sprintf("%d truncate@%d/%d fin=%v %s", s.n, cut, len(whole), fin, name))
				before := v.digest()
				c := s.streamInput(whole[:cut], fin)
				Settle(100 * time.Microsecond)
				run.Eval(1)
				region := "body"
				switch {
				case cut < len(h):
					region = "label-header"
				case cut < len(h)+5:
					region = "frame-header"
				}
				run.Cell("stream", "truncate", name, region, fmt.Sprintf("fin=%v", fin), fmt.Sprintf("enc=%d", cfg.EncVsn))
				if after := v.digest(); after != before {
					fail("truncated-stream-had-effect/"+name, "stream %q cut after %d of %d bytes (fin=%v) changed the node: %s", name, cut, len(whole), fin, diffDigest(before, after))
					return
				}
				if fin && c != nil {
					// with a FIN the handler sees EOF at once and must close
					if !c.Acceptor.IsClosed() {
						Settle(5 * time.Millisecond)
						if !c.Acceptor.IsClosed() {
							fail("conn-not-closed-on-eof", "stream %q cut after %d bytes with FIN: the node has not closed the connection", name, cut)
							return
						}
					}
				}
				batch++
			}
			if batch >= 120 {
				batch = 0
				if !s.liveness(fmt.Sprintf("during truncations of %s", name)) || !s.leaks(fmt.Sprintf("after truncations of %s up to %d", name, cut), baseGor) {
					return
				}
			}
		}
		// byte mutations of the whole transmission
		for i := 0; i < len(whole); i++ {
			if !full && i > 40 && i%11 != 0 {
				continue
			}
			m := append([]byte(nil), whole...)
			m[i] ^= byte(1 << uint(rng.Intn(8)))
			s.n++
			run.Journal(id, fmt.Sprintf("%d flip@%d %s %s", s.n, i, name, hx(m)))
			before := v.digest()
			c := s.streamInput(m, true)
			Settle(100 * time.Microsecond)
			run.Eval(1)
			run.Cell("stream", "flip", name, fmt.Sprintf("enc=%d", cfg.EncVsn))
			if cfg.EncVsn >= 0 && cfg.Verify && i >= len(h) {
				// inside the encrypt frame: authentication must fail, nothing may change
				// (the version byte is the documented exception judged by C14)
				if i != len(h)+5 {
					if after := v.digest(); after != before {
						fail("tampered-stream-had-effect/"+name, "stream %q with one bit flipped at offset %d changed the node: %s", name, i, diffDigest(before, after))
						return
					}
				}
			}
			_ = c
		}
	}
	if !s.liveness("after mutated streams") || !s.leaks("after mutated streams", baseGor) {
		return
	}
	// ---- declared sizes beyond the caps: refused before the data is read ----
	type capCase struct {
		name string
		raw  []byte
		max  int64 // the node may consume at most this many bytes of what follows the header
	}
	filler := make([]byte, 64<<10)
	var caps []capCase
	mkpp := func(nodes, user int) []byte {
		b := []byte{TPushPull}
		return append(b, mpEncode(&WPushPullHeader{Nodes: nodes, UserStateLen: user, Join: false})...)
	}
	plainCaps := map[string][]byte{
		"nodes>2^20":      mkpp(1<<20+1, 0),
		"nodes<0":         mkpp(-5, 0),
		"userstate>20MiB": mkpp(0, 20<<20+1),
		"userstate<0":     mkpp(0, -1),
		"usermsg>20MiB":   append([]byte{TUser}, mpEncode(&WUserMsgHeader{UserMsgLen: 20<<20 + 1})...),
		"usermsg<0":       append([]byte{TUser}, mpEncode(&WUserMsgHeader{UserMsgLen: -7})...),
		// values of 2^32 and beyond whose low 32 bits look harmless
		"nodes=2^32+3":      mkpp(1<<32+3, 0),
		"nodes=-2^32":       mkpp(-(1 << 32), 0),
		"userstate=2^32+9":  mkpp(0, 1<<32+9),
		"usermsg=2^32+9":    append([]byte{TUser}, mpEncode(&WUserMsgHeader{UserMsgLen: 1<<32 + 9})...),
		"unknown-type":      {77, 1, 2, 3},
		"compress-bad-algo": Enc(TCompress, &WCompress{Algo: 5, Buf: []byte{1}}),
	}
	var pn []string
	for k := range plainCaps {
		pn = append(pn, k)
	}
	sort.Strings(pn)
	for _, k := range pn {
		h, f := v.wrapStream(plainCaps[k], false)
		caps = append(caps, capCase{k, append(append(append([]byte(nil), h...), f...), filler...), int64(len(h) + len(f) + 4096)})
	}
	if cfg.EncVsn >= 0 {
		hdr := []byte{TEncrypt, 0, 0, 0, 0}
		binary.BigEndian.PutUint32(hdr[1:], 20<<20+1)
		caps = append(caps, capCase{"encrypted-length>20MiB", append(append(append([]byte(nil), v.header()...), hdr...), filler...), int64(len(v.header()) + 5 + 4096)})
	}
	if cfg.EncVsn >= 0 {
		// an authentic frame whose plaintext is empty
		h, f := v.wrapStream([]byte{}, false)
		caps = append(caps, capCase{"encrypted-empty-plaintext", append(append([]byte(nil), h...), f...), int64(len(h) + len(f) + 4096)})
	}
	for _, cc := range caps {
		s.n++
		run.Journal(id, fmt.Sprintf("%d cap %s", s.n, cc.name))
		before := v.digest()
		c := s.streamInput(cc.raw, false)
		Settle(5 * time.Millisecond)
		run.Eval(1)
		run.Cell("stream", "cap", cc.name, fmt.Sprintf("enc=%d", cfg.EncVsn))
		if c == nil {
			continue
		}
		if got := c.Acceptor.Consumed(); got > cc.max {
			fail("cap-not-enforced-before-read/"+cc.name, "declared size beyond the cap (%s): the node kept reading, %d bytes consumed (header + one 4 KiB buffer = %d)", cc.name, got, cc.max)
			return
		}
		if !c.Acceptor.IsClosed() {
			fail("cap-conn-not-closed/"+cc.name, "declared size beyond the cap (%s): the node did not close the connection", cc.name)
			return
		}
		if after := v.digest(); after != before {
			fail("cap-had-effect/"+cc.name, "refused stream (%s) changed the node", cc.name)
			return
		}
		c.Dialer.Close()
	}
	// decompression bomb on the stream path
	if cfgI%4 == 1 || full {
		bomb := LZWCompress(append([]byte{TPushPull}, make([]byte, 41<<20)...))
		h, f := v.wrapStream(bomb, false)
		before := v.digest()
		c := s.streamInput(append(h, f...), true)
		Settle(10 * time.Millisecond)
		run.Cell("stream", "lzw-bomb")
		run.Eval(1)
		if after := v.digest(); after != before {
			fail("bomb-had-effect", "a decompression bomb changed the node")
		}
		if c != nil && !c.Acceptor.IsClosed() {
			fail("bomb-conn-open", "connection still open after a decompression bomb")
		}
	}
	// ---- concurrent push/pull cap: beyond 128 in flight the state is not even read ----
	{
		var stalled []*Conn
		hdrOnly := func() []byte {
			h, _ := v.wrapStream(nil, false)
			msg := mkpp(1, 1<<20) // declares one node and 1 MiB of user state, then stalls
			_, f := v.wrapStream(msg, false)
			return append(append([]byte(nil), h...), f...)
		}
		if cfg.EncVsn < 0 { // in clear the handler can start reading the state and block on the missing rest
			for i := 0; i < 140; i++ {
				if c := s.streamInput(hdrOnly(), false); c != nil {
					stalled = append(stalled, c)
				}
			}
			Settle(20 * time.Millisecond)
			inflight := v.rig.V.ML().VerifPushPullInFlight()
			refused := 0
			for _, c := range stalled {
				if c.Acceptor.IsClosed() {
					refused++
				}
			}
			run.Cell("stream", "concurrent-pushpull-cap")
			run.Eval(1)
			if inflight > 128 {
				fail("pushpull-cap", "%d push/pull exchanges in flight at once (cap 128)", inflight)
			}
			if refused < 140-128 {
				fail("pushpull-cap", "140 stalled push/pull streams opened, only %d were refused (at least %d expected)", refused, 140-128)
			}
			for _, c := range stalled {
				c.Dialer.Close()
			}
		}
	}
	if !s.liveness("after the cap tests") || !s.leaks("after the cap tests", baseGor) {
		return
	}
	// ---- handoff queue depth under a flood while the delegate is stuck ----
	{
		gate := make(chan struct{})
		v.rig.V.Del.mu.Lock()
		v.rig.V.Del.Gate = gate
		v.rig.V.Del.mu.Unlock()
		depth := v.rig.V.Conf.HandoffQueueDepth
		for i := 0; i < depth+500; i++ {
			v.rig.C.Net.Inject(v.rig.V.EP, v.x.EP.Addr, v.wrapPacket(append([]byte{TUser}, byte(i), byte(i>>8)), false))
		}
		Settle(10 * time.Millisecond)
		hi, lo := v.rig.V.ML().VerifHandoffDepths()
		run.Cell("packet", "handoff-flood")
		run.Eval(1)
		if hi > depth || lo > depth {
			fail("handoff-depth", "with a stuck delegate the handoff queues grew to %d/%d, configured depth %d", hi, lo, depth)
		}
		// the listener must still answer pings while the handler is stuck
		seq := uint32(777001)
		nx := len(v.x.Received())
		v.rig.C.Net.Inject(v.rig.V.EP, v.x.EP.Addr, v.wrapPacket(Enc(TPing, &WPing{SeqNo: seq, Node: "V", SourceAddr: []byte{10, 9, 1, 1}, SourcePort: 7946, SourceNode: "x"}), false))
		Settle(5 * time.Millisecond)
		acked := false
		for _, p := range v.x.Received()[nx:] {
			for _, l := range p.Info.Leaves {
				if l.Type == TAck {
					acked = true
				}
			}
		}
		if !acked {
			fail("packet-listener-blocked-by-handler", "pings are not answered while the message handler is stuck in the delegate")
		}
		close(gate)
		Settle(50 * time.Millisecond)
	}
	v.rig.C.CheckQuiescent()
	for _, p := range v.rig.C.Problems() {
		out = append(out, &c01Result{p.Key, p.What})
	}
	return
}

func TestC13(t *testing.T) {
	run := NewRun(t, "C13", "fault_enumeration",
		"One real node (with a 3-member view) per configuration {label none/short} x {encryption none/v1/v0} x {verify incoming on/off} x compression. Packet path: genuine messages of every type (with and without checksum header), each mutated by every truncation, byte positions x {invert, 0x00, 0xff, +1}, every single bit for items <= 256 bytes, a 0..255 type-byte sweep, doubled/empty/truncated label headers, random buffers; structurally hostile plaintexts correctly wrapped (lying compound tables, 60-deep nesting, compress-in-compound-in-compress, bad algorithms, msgpack headers announcing 2^32-1 elements, wrong-path types) and a 41 MiB decompression bomb. Stream path: every cut point of genuine push/pull (join and not), user message and ping (with FIN or stalled), single-bit flips, declared sizes beyond each cap (nodes > 2^20 or < 0, user state / user message > 20 MiB or < 0, encrypted length > 20 MiB) followed by 64 KiB of filler, a decompression bomb, 140 concurrent stalled push/pulls, and a packet flood with the delegate stuck. Monitors: the process must survive (each input is journalled before injection; a crash names the input); inputs in which the oracle-side codec finds no well-formed message leave the digest (records, members, events, delegate calls, queue, health) unchanged; genuine pings on both listeners keep being answered; after TCPTimeout no inbound connection, pending-probe record, push/pull counter or goroutine is left; bytes consumed after an over-cap header stay within one 4 KiB buffer. Part 3: well-formed but odd membership data (version vectors of 0-12 entries, addresses of 0-17 bytes, states outside the enum, empty names, the receiver's own name, port 0, maximal incarnations, 512/513-byte metadata) by push/pull (join and not) and as gossip, against victims that are alone / have peers / have left (alone or with peers) and have the merge and/or alive delegate configured: survival, continued service of a genuine push/pull, no leaked connection or counter. Cell = (path, mutation class, config, deepest layer reached).")
	defer run.Finish()
	run.Assume("an input is 'undecodable' when the oracle-side codec (label, authentication, CRC, compound/compress nesting, msgpack) finds no complete well-formed message in it; inputs that do contain one may have any C01-legal effect and are not judged here")
	full := run.Thorough()
	for rep := 0; rep < run.Pick(1, 16); rep++ {
		for ci := range c13Cfgs {
			for _, part := range []string{"packets", "streams"} {
				id := fmt.Sprintf("%s/cfg%d/rep%d", part, ci, rep)
				k := rep*16 + ci*2 + map[string]int{"packets": 0, "streams": 1}[part]
				if !run.Mine(k) || !run.Want(id) {
					continue
				}
				run.Journal(id, "start")
				var res []*c01Result
				err := Bubble(t, func() {
					if part == "packets" {
						res = runC13Packets(run, run.Seed()*19+int64(ci)+int64(rep)*1009, ci, id, full)
					} else {
						res = runC13Streams(run, run.Seed()*23+int64(ci)+int64(rep)*1013, ci, id, full)
					}
				})
				if err != nil {
					res = append(res, &c01Result{"C13/bubble", err.Error()})
				}
				for _, r := range res {
					run.Violation(id, r.Key, r.What, map[string]any{"cfg": c13Cfgs[ci].String()})
				}
			}
		}
	}
	// part 3: well-formed but odd membership data against victims in every lifecycle phase
	oddK := 0
	for rep := 0; rep < run.Pick(1, 24); rep++ {
		for _, phase := range []string{"alone", "with-peers", "left-alone", "left-with-peers"} {
			for _, dg := range []string{"none", "merge", "alive", "merge+alive"} {
				oddK++
				id := fmt.Sprintf("odd/%s/%s/rep%d", phase, dg, rep)
				if !run.Mine(oddK) || !run.Want(id) {
					continue
				}
				sc := c13OddScn{Phase: phase, Delegates: dg, Enc: oddK%3 == 0, Label: []string{"", "lab"}[oddK%2]}
				run.Journal(id, "start")
				var res []*c01Result
				err := Bubble(t, func() { res = runC13Odd(run, run.Seed()*29+int64(oddK)+int64(rep)*1019, sc, id, run.Pick(96, 400)) })
				if err != nil {
					res = append(res, &c01Result{"C13/bubble", err.Error()})
				}
				for _, r := range res {
					run.Violation(id, r.Key, r.What, sc)
				}
			}
		}
	}
	for i := 0; i < run.Pick(4, 64); i++ {
		id := fmt.Sprintf("nack-flood/%d", i)
		if !run.Mine(i) || !run.Want(id) {
			continue
		}
		run.Journal(id, "start")
		var res []*c01Result
		err := Bubble(t, func() { res = runC13NackFlood(run, run.Seed()*31+int64(i), i%4) })
		if err != nil {
			res = append(res, &c01Result{"C13/bubble", err.Error()})
		}
		for _, r := range res {
			run.Violation(id, r.Key, r.What, map[string]any{"indirect_checks": i % 4})
		}
	}
	for i := 0; i < run.Pick(2, 16); i++ {
		id := fmt.Sprintf("merge-cap/%d", i)
		if !run.Mine(i+1) || !run.Want(id) {
			continue
		}
		run.Journal(id, "start")
		var res []*c01Result
		err := Bubble(t, func() { res = runC13MergeCap(run, run.Seed()*37+int64(i), 150+10*i) })
		if err != nil {
			res = append(res, &c01Result{"C13/bubble", err.Error()})
		}
		for _, r := range res {
			run.Violation(id, r.Key, r.What, nil)
		}
	}
	for i, nn := range []int{600, 300, 1100} {
		id := fmt.Sprintf("silent-flood/%d", nn)
		if !run.Mine(i+3) || !run.Want(id) {
			continue
		}
		run.Journal(id, "start")
		var res []*c01Result
		err := Bubble(t, func() { res = runC13SilentFlood(run, run.Seed()*43+int64(i), nn, i == 1) })
		if err != nil {
			res = append(res, &c01Result{"C13/bubble", err.Error()})
		}
		for _, r := range res {
			run.Violation(id, r.Key, r.What, nil)
		}
	}
	for i, mode := range []string{"join", "periodic"} {
		id := "deaf-peer/" + mode
		if !run.Mine(i+2) || !run.Want(id) {
			continue
		}
		run.Journal(id, "start")
		var res []*c01Result
		err := Bubble(t, func() { res = runC13DeafPeer(run, run.Seed()*41+int64(i), mode) })
		if err != nil {
			res = append(res, &c01Result{"C13/bubble", err.Error()})
		}
		for _, r := range res {
			run.Violation(id, r.Key, r.What, nil)
		}
	}
	if !run.Replaying() {
		run.Require("deaf-peer|join", "deaf-peer|periodic", "silent-flood|n=600|shutdown=false", "silent-flood|n=300|shutdown=true")
		run.Require("nack-flood|indirect=1", "merge-cap|offered=150")
		run.Require("odd|pushpull-join=true|left-alone|merge", "odd|pushpull-join=true|alone|merge+alive", "odd|gossip|with-peers|alive", "odd|pushpull-join=false|left-with-peers|none")
	}
	run.Sample(map[string]any{"cfg": c13Cfgs[0].String(), "example_inputs": []string{"every truncation of a sealed ping", "compound announcing 255 parts with no table", "push/pull header declaring 2^20+1 nodes + 64 KiB filler"}})
	run.Complete()
	if run.Violations() > 0 {
		t.Errorf("%d violation(s)", run.Violations())
	}
}

var _ = bytes.Equal
