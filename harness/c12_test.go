package harness

// C12 — the wire pipeline round-trips every message under every configuration.
// End-to-end equality at the API boundary (sender input vs receiver delegate /
// receiver record); the oracle-side codec is not on the comparison path.

import (
	"bytes"
	"crypto/sha256"
	"encoding/binary"
	"fmt"
	"math/rand"
	"strings"
	"testing"
	"time"

	"github.com/hashicorp/memberlist"
)

type c12Cfg struct {
	PV       int    `json:"protocol_version"`
	KeyLen   int    `json:"key_len"`
	Compress bool   `json:"compress"`
	Label    string `json:"label"`
	TimeFmtA bool   `json:"new_time_format_sender"`
	TimeFmtB bool   `json:"new_time_format_receiver"`
	NameLen  int    `json:"name_len"`
	MetaLen  int    `json:"meta_len"`
	Port     int    `json:"port"`
	// encryption roll-out stage: the receiver already has the keyring but still accepts and sends
	// cleartext (both verification flags off), the sender has no key yet
	Rollout bool `json:"encryption_rollout_stage,omitempty"`
}

// mkPayload builds a self-describing payload: [id u32][len u32][body][sha256[:8]] or shorter forms for tiny sizes.
func mkPayload(rng *rand.Rand, id uint32, size int, compressible bool) []byte {
	p := make([]byte, size)
	if compressible {
		for i := range p {
			p[i] = byte('a' + (i/7)%3)
		}
	} else {
		rng.Read(p)
	}
	if size >= 4 {
		binary.BigEndian.PutUint32(p, id)
	}
	if size >= 16 {
		sum := sha256.Sum256(p[:size-8])
		copy(p[size-8:], sum[:8])
	}
	// hostile-looking tails (valid PKCS#7 padding lookalikes) for some
	if size > 40 && id%5 == 0 {
		for i := 0; i < 16; i++ {
			p[size-1-i] = 16
		}
	}
	if size > 40 && id%5 == 1 {
		p[size-1] = 1
	}
	return p
}

func runC12(run *Run, seed int64, cfg c12Cfg, sizes []int, rng *rand.Rand) (out []*c01Result) {
	fail := func(key, f string, a ...any) {
		if len(out) < 8 {
			out = append(out, &c01Result{"C12/" + key, fmt.Sprintf(f, a...)})
		}
	}
	c := NewCluster(seed)
	defer c.Drain()
	c.Net.KeepTrace = false
	var key []byte
	if cfg.KeyLen > 0 {
		key = bytes.Repeat([]byte{0x77}, cfg.KeyLen)
	}
	nameA := strings.Repeat("A", cfg.NameLen)
	nameB := strings.Repeat("B", cfg.NameLen)
	if cfg.NameLen == 8 && seed%2 == 0 {
		// names are opaque byte strings: colons, blanks, non-ASCII and control bytes (no '/', which the
		// "name/address" form of a join target reserves)
		nameA = "A:\xc3\xa9 \x01:7946"[:8]
		nameB = "B@[::1]\xff"
	}
	meta := func(tag byte, n int) []byte { return bytes.Repeat([]byte{tag}, n) }
	mut := func(newTime bool, sender bool) func(cf *memberlist.Config) {
		return func(cf *memberlist.Config) {
			if cfg.Rollout {
				defer func() {
					if sender {
						cf.Keyring = nil
					} else {
						cf.GossipVerifyIncoming, cf.GossipVerifyOutgoing = false, false
					}
				}()
			}
			cf.ProtocolVersion = uint8(cfg.PV)
			cf.EnableCompression = cfg.Compress
			cf.Label = cfg.Label
			cf.MsgpackUseNewTimeFormat = newTime
			cf.PushPullInterval = 0
			cf.UDPBufferSize = 1400
			if key != nil {
				ring, _ := memberlist.NewKeyring(nil, key)
				cf.Keyring = ring
			}
		}
	}
	A, err := c.Add(NodeSpec{Name: nameA, Port: cfg.Port, Meta: meta('a', cfg.MetaLen), Mutate: mut(cfg.TimeFmtA, true), WithPing: true})
	if err != nil {
		fail("harness/create", "%v", err)
		return
	}
	B, err := c.Add(NodeSpec{Name: nameB, Port: cfg.Port, Meta: meta('b', cfg.MetaLen), Mutate: mut(cfg.TimeFmtB, false), WithPing: true})
	if err != nil {
		fail("harness/create", "%v", err)
		return
	}
	B.AckPayload = []byte("ack-payload-\x00\x01\xff-from-B")
	// user state through push/pull (join)
	stateA := mkPayload(rng, 900001, 3000, false)
	stateB := mkPayload(rng, 900002, 70000, true)
	A.Del.State, B.Del.State = stateA, stateB
	// the forms a join target may take: address:port, name/address:port and - when the peer listens on the joiner's
	// own configured port - the bare address (the port is filled in)
	forms := []string{B.EP.Addr, nameB + "/" + B.EP.Addr}
	if cfg.Port == 7946 {
		forms = append(forms, B.EP.IP.String(), nameB+"/"+B.EP.IP.String())
	}
	target := forms[int(seed)%len(forms)]
	run.Cell("join-target", []string{"addr:port", "name/addr:port", "addr", "name/addr"}[int(seed)%len(forms)])
	if n, err := A.ML().Join([]string{target}); err != nil || n != 1 {
		fail("join", "compatible peers could not join via %q: (%d, %v) (cfg %+v)", target, n, err, cfg)
		return
	}
	if !contains(A.MemberNames(), nameB) {
		fail("join-not-listed", "Join(%q) reported success but the joiner does not list the host: %q", target, A.MemberNames())
		return
	}
	Settle(300 * time.Millisecond)
	run.Cell("path", "pushpull-state")
	got := func(n *SimNode) [][]byte {
		var o [][]byte
		for _, m := range n.Del.MergedStates() {
			o = append(o, m.Buf)
		}
		return o
	}
	if g := got(B); len(g) != 1 || !bytes.Equal(g[0], stateA) {
		fail("pushpull-state", "receiver's MergeRemoteState calls: %d, bytes equal: %v (joiner state %d bytes) cfg %+v", len(g), len(g) == 1 && bytes.Equal(g[0], stateA), len(stateA), cfg)
	}
	if g := got(A); len(g) != 1 || !bytes.Equal(g[0], stateB) {
		fail("pushpull-state", "joiner's MergeRemoteState calls: %d, bytes equal: %v (host state %d bytes) cfg %+v", len(g), len(g) == 1 && bytes.Equal(g[0], stateB), len(stateB), cfg)
	}
	// protocol fields: each side's record of the other equals the owner's own record
	cmp := func(owner, holder *SimNode, when string) {
		own := owner.Record(owner.Name)
		held := holder.Record(owner.Name)
		if own == nil || held == nil {
			fail("record/"+when, "%s: record missing (own %v held %v) cfg %+v", when, own != nil, held != nil, cfg)
			return
		}
		if own.Incarnation != held.Incarnation || !bytes.Equal(own.Addr, held.Addr) || own.Port != held.Port || !bytes.Equal(own.Meta, held.Meta) || own.Vsn != held.Vsn || held.State != memberlist.StateAlive {
			fail("record/"+when, "%s: peer holds [%s], owner says [%s] cfg %+v", when, recString(held), recString(own), cfg)
		}
	}
	cmp(A, B, "after-join")
	cmp(B, A, "after-join")
	run.Cell("path", "alive-fields")
	// metadata update travels by gossip
	A.Del.SetMeta(meta('z', cfg.MetaLen))
	_ = A.ML().UpdateNode(2 * time.Second)
	Settle(2 * time.Second)
	cmp(A, B, "after-update")
	// pings: API ping and the Ping delegate payload on probes
	var bNode *memberlist.Node
	for _, mb := range A.ML().Members() {
		if mb.Name == nameB {
			bNode = mb
		}
	}
	if bNode == nil {
		fail("harness/no-peer", "sender does not list the receiver")
		return
	}
	if _, err := A.ML().Ping(nameB, simAddr{B.EP.Addr}); err != nil {
		fail("ping", "Ping() of a healthy compatible peer failed: %v cfg %+v", err, cfg)
	}
	run.Cell("path", "ping")
	Settle(3 * time.Second) // a few probe rounds
	A.mu.Lock()
	pd := append([]PingRec(nil), A.PingDone...)
	A.mu.Unlock()
	if len(pd) == 0 {
		fail("ping-delegate", "no probe completed with the ping delegate in 3 s cfg %+v", cfg)
	}
	for _, p := range pd {
		if !bytes.Equal(p.Payload, B.AckPayload) {
			fail("ping-payload", "ack payload arrived as %q, receiver's delegate returned %q cfg %+v", p.Payload, B.AckPayload, cfg)
			break
		}
	}
	run.Cell("path", "ack-payload")
	// a ping that travels on its own: once the sender's broadcast queue has drained nothing is piggybacked, the
	// datagram is the bare message (to a peer that speaks protocol < 5 also without the checksum header), whose
	// first byte is the message type
	for k := 0; k < 100 && A.ML().VerifNumQueued() > 0; k++ {
		Settle(200 * time.Millisecond)
	}
	if A.ML().VerifNumQueued() == 0 {
		if _, err := A.ML().Ping(nameB, simAddr{B.EP.Addr}); err != nil {
			fail("ping/bare", "Ping() of a healthy compatible peer, sent with nothing piggybacked, failed: %v cfg %+v", err, cfg)
		}
		run.Cell("path", "ping-bare")
	}
	// user payloads
	type sent struct {
		path string
		p    []byte
	}
	var sents []sent
	id := uint32(0)
	// empty payloads cannot carry an id: one path at a time, counted before/after
	countEmpty := func() int {
		n := 0
		for _, r := range B.Del.Received() {
			if len(r) == 0 {
				n++
			}
		}
		return n
	}
	for _, path := range []string{"best-effort", "to-address", "reliable", "gossip"} {
		before := countEmpty()
		var err error
		switch path {
		case "best-effort":
			err = A.ML().SendBestEffort(bNode, []byte{})
		case "to-address":
			err = A.ML().SendToAddress(memberlist.Address{Addr: B.EP.Addr, Name: nameB}, nil)
		case "reliable":
			err = A.ML().SendReliable(bNode, []byte{})
		case "gossip":
			A.Del.Queue([]byte{})
		}
		Settle(1500 * time.Millisecond)
		run.Eval(1)
		run.Cell("user", path, "empty")
		if err != nil {
			fail("send/"+path, "%s of an empty payload failed: %v cfg %+v", path, err, cfg)
		} else if d := countEmpty() - before; d != 1 {
			fail("user-lost-or-changed/"+path+"/len=0", "%s: an empty payload was accepted for sending (nil error) but the receiver's delegate was called %d times for it cfg %+v", path, d, cfg)
		}
	}
	for _, sz := range sizes {
		if sz == 0 {
			continue
		}
		for _, compressible := range []bool{false, true} {
			for _, path := range []string{"best-effort", "to-address", "reliable", "gossip"} {
				if sz > 1000 && path == "gossip" {
					continue // the delegate must respect the offered limit (a 255-byte label and v0 encryption leave ~1090 bytes)
				}
				if sz > 60000 && (path == "best-effort" || path == "to-address") {
					continue // beyond a datagram
				}
				id++
				p := mkPayload(rng, id, sz, compressible)
				var err error
				switch path {
				case "best-effort":
					err = A.ML().SendBestEffort(bNode, p)
				case "to-address":
					err = A.ML().SendToAddress(memberlist.Address{Addr: B.EP.Addr, Name: nameB}, p)
				case "reliable":
					err = A.ML().SendReliable(bNode, p)
				case "gossip":
					A.Del.Queue(p)
				}
				if err != nil {
					fail("send/"+path, "%s of %d bytes failed: %v cfg %+v", path, sz, err, cfg)
					continue
				}
				sents = append(sents, sent{path, p})
				sc := "tiny"
				switch {
				case sz >= 4096:
					sc = "large"
				case sz >= 255:
					sc = "medium"
				case sz >= 15:
					sc = "small"
				}
				run.Cell("user", path, sc, fmt.Sprintf("compressible=%v", compressible))
			}
		}
	}
	Settle(6 * time.Second)
	// burst while the receiver's delegate is busy: messages wait in the handoff queue while
	// further packets are ingested (their buffers must stay intact)
	gate := make(chan struct{})
	B.Del.mu.Lock()
	B.Del.Gate = gate
	B.Del.mu.Unlock()
	for k := 0; k < 5; k++ {
		id++
		p := mkPayload(rng, id, 300+k, k%2 == 0)
		if err := A.ML().SendBestEffort(bNode, p); err == nil {
			sents = append(sents, sent{"best-effort", p})
		}
		Settle(2 * time.Millisecond)
	}
	run.Cell("user", "best-effort", "burst-while-delegate-busy")
	close(gate)
	Settle(time.Second)
	// floods with the delegate free-running: the listener hands messages over while the handler is draining them
	// (each flood stays below the hand-off queue depth, beyond which dropping is documented)
	if depth := B.Conf.HandoffQueueDepth; depth >= 600 {
		for f := 0; f < 4; f++ {
			for k := 0; k < 500; k++ {
				id++
				p := mkPayload(rng, id, 12+k%5, false)
				if err := A.ML().SendBestEffort(bNode, p); err == nil {
					sents = append(sents, sent{"best-effort", p})
				}
			}
			Settle(300 * time.Millisecond)
		}
		run.Cell("user", "best-effort", "flood")
	}
	recv := B.Del.Received()
	used := make([]bool, len(recv))
	for _, s := range sents {
		n := 0
		for i, r := range recv {
			if !used[i] && bytes.Equal(r, s.p) {
				n++
				used[i] = true
				break
			}
		}
		run.Eval(1)
		if n != 1 {
			// find a near miss for the witness
			near := ""
			for i, r := range recv {
				if !used[i] && len(s.p) >= 4 && len(r) >= 4 && bytes.Equal(r[:4], s.p[:4]) {
					near = fmt.Sprintf("; a payload with the same id arrived with %d bytes (sent %d)", len(r), len(s.p))
				}
			}
			fail("user-lost-or-changed/"+s.path+fmt.Sprintf("/len=%d", lenClass(len(s.p))), "%s payload of %d bytes did not reach the receiver's delegate unmodified%s cfg %+v", s.path, len(s.p), near, cfg)
		}
	}
	extra := 0
	for i := range recv {
		if !used[i] && len(recv[i]) > 0 { // empty payloads were counted per path above
			extra++
		}
	}
	if extra > 0 {
		fail("user-extra", "%d payloads reached the delegate that were never sent (duplicates or corrupted copies) cfg %+v", extra, cfg)
	}
	// the receiver leaves, its process ends, and its name comes back from another address: what the sender then
	// addresses to that member (by the Node it finds in Members()) must reach the new instance
	if seed%2 == 1 {
		if err := B.ML().Leave(5 * time.Second); err == nil {
			Settle(2 * time.Second)
			c.Stop(B)
			B2, err := c.Add(NodeSpec{Name: nameB, IP: "10.0.7.7", Port: cfg.Port, Meta: meta('c', cfg.MetaLen), Mutate: mut(cfg.TimeFmtB, false), WithPing: true})
			if err != nil {
				fail("harness/create", "%v", err)
				return
			}
			if _, err := B2.ML().Join([]string{A.EP.Addr}); err != nil {
				fail("rejoin", "a departed name could not come back from another address: %v cfg %+v", err, cfg)
				return
			}
			Settle(2 * time.Second)
			var nb2 *memberlist.Node
			for _, mb := range A.ML().Members() {
				if mb.Name == nameB {
					nb2 = mb
				}
			}
			run.Cell("path", "member-returned-from-new-address")
			if nb2 == nil {
				fail("rejoin-not-listed", "the sender does not list the returned member cfg %+v", cfg)
				return
			}
			p1, p2 := mkPayload(rng, 77001, 40, false), mkPayload(rng, 77002, 2000, false)
			e1 := A.ML().SendBestEffort(nb2, p1)
			e2 := A.ML().SendReliable(nb2, p2)
			_, e3 := A.ML().Ping(nameB, simAddr{nb2.Address()})
			Settle(2 * time.Second)
			got := B2.Del.Received()
			has := func(p []byte) bool {
				for _, g := range got {
					if bytes.Equal(g, p) {
						return true
					}
				}
				return false
			}
			if e1 != nil || e2 != nil || e3 != nil || !has(p1) || !has(p2) {
				fail("returned-member-unreachable", "member %q left and came back from %s; addressed through the Node the sender lists (Address() = %s): best-effort err=%v delivered=%v, reliable err=%v delivered=%v, ping err=%v cfg %+v", nameB, B2.EP.Addr, nb2.Address(), e1, has(p1), e2, has(p2), e3, cfg)
			}
		}
	}
	c.CheckQuiescent()
	for _, p := range c.Problems() {
		out = append(out, &c01Result{p.Key, p.What})
	}
	return
}

func lenClass(n int) int {
	switch {
	case n == 0:
		return 0
	case n < 16:
		return 1
	case n < 256:
		return 16
	case n < 4096:
		return 256
	}
	return 4096
}

func TestC12(t *testing.T) {
	run := NewRun(t, "C12", "exploration",
		"Sender/receiver pairs of real nodes over the configuration matrix protocol version 1-5 (encryption v0/v1) x key none/16/24/32 bytes x compression x label none/short/255 bytes x msgpack time format (mixed between the two sides) x names of 1 and 255 bytes, metadata of 0 and 512 bytes, ports 1 / 7946 / 65535. Compared end to end at the API boundary: user payloads of sizes {0,1,15,16,17,31,32,33,255,256,1200,4095,4096,4097,65000,1 MiB} (compressible and random, some ending in PKCS#7-looking tails) through SendBestEffort (CRC), SendToAddress (no CRC), SendReliable and gossip broadcasts must reach the receiver's delegate byte-identical exactly once, nothing else may arrive; LocalState must equal the peer's MergeRemoteState argument in both directions of a join; each side's record of the other (incarnation, address, port, metadata, versions) must equal the owner's own, after join and after a metadata update; Ping() succeeds and the Ping delegate's ack payload arrives unmodified. Cell = (path, size class, compressibility) + config tuple.")
	defer run.Finish()
	run.Assume("payloads carry their id and a checksum, the comparison is byte equality of what was sent with what the delegate received; the oracle-side codec is not involved")
	sizesQ := []int{0, 1, 15, 16, 17, 31, 32, 33, 255, 256, 1200, 4095, 4096, 4097, 65000}
	sizesBig := append(append([]int(nil), sizesQ...), 1<<20)
	var cfgs []c12Cfg
	labels := []string{"", "lb", strings.Repeat("L", 255)}
	i := 0
	for pv := 1; pv <= 5; pv++ {
		for _, kl := range []int{0, 16, 24, 32} {
			for _, comp := range []bool{false, true} {
				for _, lb := range labels {
					i++
					cfgs = append(cfgs, c12Cfg{PV: pv, KeyLen: kl, Compress: comp, Label: lb, TimeFmtA: i%2 == 0, TimeFmtB: i%3 == 0,
						NameLen: []int{1, 8, 255}[i%3], MetaLen: []int{0, 7, 512}[(i/2)%3], Port: []int{7946, 1, 65535}[(i/3)%3]})
				}
			}
		}
	}
	for j := 0; j < 6; j++ {
		cfgs = append(cfgs, c12Cfg{PV: []int{5, 1, 2}[j%3], KeyLen: 16, Compress: j%2 == 1, Label: labels[j%2], TimeFmtA: j%2 == 0, NameLen: []int{8, 255}[j%2], MetaLen: 7, Port: 7946, Rollout: true})
	}
	// quick: a covering subset (every value of every dimension, pairwise-ish by stride); thorough: all 120
	step := run.Pick(3, 1)
	for rep := 0; rep < run.Pick(1, 12); rep++ {
		for k := 0; k < len(cfgs); k++ {
			// (the stride is skewed so that one residue still meets every value of every dimension: labels
			// cycle with period 3 in the list)
			cfg := cfgs[k]
			if (k+k/3+k/9+k/27)%step != run.Pick(int(run.Seed())%3, 0) && !cfg.Rollout { // (the roll-out pairs are few: all of them, always)
				continue
			}
			id := fmt.Sprintf("cfg/%d/rep%d", k, rep)
			if !run.Mine(k/step+rep) || !run.Want(id) {
				continue
			}
			run.Journal(id, fmt.Sprintf("%+v", cfg))
			rng := run.RNG(id)
			sizes := sizesQ
			if k%7 == 0 || run.Thorough() {
				sizes = sizesBig
			}
			var res []*c01Result
			err := Bubble(t, func() { res = runC12(run, run.Seed()+int64(k)+int64(rep)*7919, cfg, sizes, rng) })
			if err != nil {
				res = append(res, &c01Result{"C12/bubble", err.Error()})
			}
			run.Cell("cfg", fmt.Sprintf("pv%d", cfg.PV), fmt.Sprintf("key%d", cfg.KeyLen), fmt.Sprintf("comp=%v", cfg.Compress), fmt.Sprintf("label=%d", len(cfg.Label)), fmt.Sprintf("rollout=%v", cfg.Rollout))
			for _, r := range res {
				w := cfg
				if len(w.Label) > 10 {
					w.Label = "255xL"
				}
				run.Violation(id, r.Key, r.What, w)
			}
			if k < 3 && rep == 0 {
				run.Sample(cfg)
			}
		}
	}
	for i := 0; i < run.Pick(3, 60); i++ {
		id := fmt.Sprintf("real-burst/%d", i)
		if !run.Mine(i) || !run.Want(id) {
			continue
		}
		run.Journal(id, "")
		nb := 100 + 50*(i%3)
		if i == 2 {
			nb = 1000 // ~1.2 MB
		}
		for _, r := range runC12RealBurst(run, i, nb) {
			run.Violation(id, r.Key, r.What, nil)
		}
	}
	if !run.Replaying() {
		run.Require("real-burst|n=100")
	}
	run.Complete()
	if run.Violations() > 0 {
		t.Errorf("%d violation(s)", run.Violations())
	}
}
