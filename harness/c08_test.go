package harness

// C08 — graceful leave is final; a member's name and address cannot be hijacked.

import (
	"bytes"
	"fmt"
	"math/rand"
	"strings"
	"sync"
	"sync/atomic"
	"testing"
	"time"

	"github.com/hashicorp/memberlist"
)

// ---- part A: hijack / name reuse (one real node + fake peers) ----

func runC08Hijack(run *Run, seed int64, reclaim time.Duration, carrier string) (out []*c01Result) {
	fail := func(key, f string, a ...any) {
		out = append(out, &c01Result{"C08/" + key, fmt.Sprintf(f, a...)})
	}
	rig, x, _, err := newC01Rig(seed, c01Cfg{Reclaim: reclaim, Embed: seed%2 == 1})
	if err != nil {
		fail("harness/create", "%v", err)
		return
	}
	defer rig.Close()
	type cell struct {
		name, prior, rel, what string
	}
	var cells []cell
	n := 0
	for _, prior := range []string{"alive", "suspect", "dead", "dead-old", "left", "left-old"} {
		for _, rel := range []string{"<", "=", ">"} {
			for _, what := range []string{"addr", "port", "addr+port"} {
				n++
				cells = append(cells, cell{fmt.Sprintf("h%d", n), prior, rel, what})
			}
		}
	}
	mk := func(name string, stages ...string) {
		for _, st := range stages {
			var c claim
			switch st {
			case "alive":
				c = claim{Kind: ckAlive, Node: name, Inc: 5, Addr: "A1", Meta: "orig", Vsn: "ok", Carrier: "packet"}
			case "suspect":
				c = claim{Kind: ckSuspect, Node: name, Inc: 5, From: "x", Carrier: "packet"}
			case "dead":
				c = claim{Kind: ckDead, Node: name, Inc: 5, From: "x", Carrier: "packet"}
			case "left":
				c = claim{Kind: ckLeft, Node: name, Inc: 5, Carrier: "packet"}
			}
			_ = rig.deliver(c, x)
			Settle(5 * time.Microsecond)
		}
	}
	for _, c := range cells {
		switch c.prior {
		case "dead-old":
			mk(c.name, "alive", "dead")
		case "left-old":
			mk(c.name, "alive", "left")
		}
	}
	Settle(7 * time.Second)
	for _, c := range cells {
		switch c.prior {
		case "alive":
			mk(c.name, "alive")
		case "suspect":
			mk(c.name, "alive", "suspect")
		case "dead":
			mk(c.name, "alive", "dead")
		case "left":
			mk(c.name, "alive", "left")
		}
	}
	m := rig.V.ML()
	for _, c := range cells {
		inc := map[string]uint32{"<": 4, "=": 5, ">": 6}[c.rel]
		addr, port := c01Addrs["A1"], uint16(7946)
		if c.what != "port" {
			addr = c01Addrs["A2"]
		}
		if c.what != "addr" {
			port = 7999
		}
		rb := m.VerifRecordOf(c.name)
		if rb == nil {
			fail("harness/prior", "subject %s missing", c.name)
			continue
		}
		evB := len(rig.V.Ev.Log())
		rig.V.mu.Lock()
		confB := len(rig.V.Conflicts)
		rig.V.mu.Unlock()
		msg := Enc(TAlive, &WAlive{Incarnation: inc, Node: c.name, Addr: addr, Port: port, Meta: []byte("intruder"), Vsn: DefaultVsn()})
		switch carrier {
		case "packet":
			x.Send(msg)
		case "compound":
			x.Send(MakeCompound([][]byte{msg, Enc(TNack, &WNack{SeqNo: 0xfffffff4})}))
		case "pp", "ppjoin":
			entry := WPushNodeState{Name: c.name, Addr: addr, Port: port, Meta: []byte("intruder"), Incarnation: inc, State: SAlive, Vsn: DefaultVsn()}
			if _, _, err := x.PushPull(carrier == "ppjoin", []WPushNodeState{x.Self(1), entry}, nil); err != nil {
				fail("harness/pp", "%v", err)
				return
			}
		}
		Settle(20 * time.Microsecond)
		ra := m.VerifRecordOf(c.name)
		evs := rig.V.Ev.Log()[evB:]
		rig.V.mu.Lock()
		confs := append([]ConflictRec(nil), rig.V.Conflicts[confB:]...)
		rig.V.mu.Unlock()
		run.Eval(1)
		run.Cell("hijack", c.prior, c.rel, c.what, carrier, fmt.Sprintf("reclaim=%v", reclaim))
		desc := fmt.Sprintf("prior=%s claim inc %s held, differs in %s, via %s, reclaim=%v: before [%s] after [%s]", c.prior, c.rel, c.what, carrier, reclaim, recString(rb), recString(ra))
		reusable := c.prior == "left" || c.prior == "left-old" || (c.prior == "dead-old" && reclaim > 0)
		if reusable {
			if ra == nil || ra.State != memberlist.StateAlive || !bytes.Equal(ra.Addr, addr) || ra.Port != port || ra.Incarnation != inc {
				fail("reuse-refused/"+c.prior, "a departed / long-dead name must be reusable from a new address at once, but the claim was not adopted: %s", desc)
				continue
			}
			if len(evs) != 1 || evs[0].Kind != "join" || evs[0].Name != c.name {
				fail("reuse-events/"+c.prior, "name reuse must produce exactly one join event, got %v: %s", evs, desc)
			}
			continue
		}
		// protected: alive, suspect, recently dead (or reclaim disabled)
		if ra == nil || ra.Incarnation != rb.Incarnation || ra.State != rb.State || !bytes.Equal(ra.Addr, rb.Addr) || ra.Port != rb.Port || !bytes.Equal(ra.Meta, rb.Meta) {
			fail("hijacked/"+c.prior, "an alive claim from a different address changed an existing member: %s", desc)
			continue
		}
		if len(evs) != 0 {
			fail("hijack-event/"+c.prior, "conflicting claim fired events %v: %s", evs, desc)
		}
		if len(confs) != 1 {
			fail("conflict-callback/"+c.prior, "conflict callback fired %d times (expected exactly once): %s", len(confs), desc)
		} else if cr := confs[0]; cr.Existing != c.name || cr.Other != c.name || cr.ExAddr != ipString(rb.Addr) || cr.ExPort != rb.Port || cr.OtAddr != ipString(addr) || cr.OtPort != port {
			fail("conflict-args/"+c.prior, "conflict callback got (existing %s %s:%d, other %s %s:%d): %s", cr.Existing, cr.ExAddr, cr.ExPort, cr.Other, cr.OtAddr, cr.OtPort, desc)
		}
	}
	rig.C.CheckQuiescent()
	for _, p := range rig.C.Problems() {
		out = append(out, &c01Result{p.Key, p.What})
	}
	return
}

// ---- part B/C: Leave on real clusters ----

type c08Leave struct {
	N            int           `json:"n"`
	Mode         string        `json:"mode"` // responsive | departing
	Loss         float64       `json:"loss"`
	Delay        time.Duration `json:"delay_ns"`
	Dup          float64       `json:"dup"`
	LeaveAt      time.Duration `json:"leave_at_ns"`
	Timeout      time.Duration `json:"leave_timeout_ns"`
	Race         string        `json:"race,omitempty"` // "" | suspect | dead  (accusation injected inside Leave)
	RaceRel      int           `json:"race_inc_rel,omitempty"`
	Updates      int           `json:"updates_before"`
	Replay       bool          `json:"replay_old_alive"`
	SuspectPeers bool          `json:"leaver_suspects_all_peers"` // every peer is only a suspect in the leaver's table when it leaves
	// an UpdateNode call is already inside the application's NodeMeta callback when Leave starts and
	// only continues after Leave has returned
	UpdateInFlight bool `json:"update_node_in_flight_across_leave,omitempty"`
	// the leaver's name is so long (700 bytes) that its departure message, which carries the name twice,
	// does not fit into one packet: Leave cannot deliver it and must not claim that it did
	LongName bool `json:"leaver_name_700_bytes,omitempty"`
}

func runC08Leave(run *Run, seed int64, sc c08Leave, rng *rand.Rand) (out []*c01Result, logs map[string][]string) {
	fail := func(key, f string, a ...any) {
		if len(out) < 8 {
			out = append(out, &c01Result{"C08/" + key, fmt.Sprintf(f, a...)})
		}
	}
	c := NewCluster(seed)
	defer func() {
		memberlist.VerifSetPoint(nil)
		if len(out) > 0 {
			logs = c.LogTails(14)
		}
		c.Drain()
	}()
	c.Net.KeepTrace = false
	var mu sync.Mutex
	lossy := false
	c.Net.Policy = func(n *Net, from, to string, buf []byte) Fate {
		f := Fate{Delay: n.DefaultDelay}
		mu.Lock()
		l := lossy
		mu.Unlock()
		if l && sc.Loss > 0 && n.Float() < sc.Loss {
			f.Drop = true
		}
		if sc.Dup > 0 && n.Float() < sc.Dup {
			f.Copies = 1
		}
		if sc.Delay > 0 {
			f.Delay += time.Duration(n.Intn(int(sc.Delay)))
		}
		return f
	}
	for i := 0; i < sc.N; i++ {
		name := fmt.Sprintf("n%d", i)
		if sc.LongName && i == sc.N-1 {
			name += "-" + strings.Repeat("x", 700-len(name)-1)
		}
		if _, err := c.Add(NodeSpec{Name: name, Meta: []byte(fmt.Sprintf("m%d", i)), Mutate: func(cf *memberlist.Config) {
			cf.PushPullInterval = 4 * time.Second
			cf.GossipToTheDeadTime = 10 * time.Minute // peers keep the departed record for the whole scenario
		}}); err != nil {
			fail("harness/create", "%v", err)
			return
		}
	}
	if err := c.FullMesh(); err != nil {
		fail("harness/join", "%v", err)
		return
	}
	X := c.Nodes[sc.N-1]
	peers := c.Nodes[:sc.N-1]
	// tap: departure messages to live peers; capture X's alive messages for later replay
	var tapMu sync.Mutex
	departures := 0
	var oldAlives [][]byte
	c.Net.OnPacket = append(c.Net.OnPacket, func(ev *PacketEvent) {
		if ev.Closed {
			return // attempted on an already shut down transport: never sent
		}
		// packets the lossy network drops still count as sent: Leave can only know about transmission
		pi := ParsePacket(ev.Buf, nil)
		if pi.Err != nil {
			return
		}
		for _, l := range pi.Leaves {
			switch l.Type {
			case TDead:
				var d WDead
				if mpDecode(l.Body, &d) == nil && d.Node == X.Name && d.From == X.Name && ev.From == X.EP.Addr && ev.To != X.EP.Addr {
					tapMu.Lock()
					departures++
					tapMu.Unlock()
				}
			case TAlive:
				var a WAlive
				if mpDecode(l.Body, &a) == nil && a.Node == X.Name {
					tapMu.Lock()
					if len(oldAlives) < 40 {
						oldAlives = append(oldAlives, append([]byte{TAlive}, l.Body...))
					}
					tapMu.Unlock()
				}
			}
		}
	})
	Settle(2 * time.Second)
	for i := 0; i < sc.Updates; i++ {
		X.Del.SetMeta([]byte(fmt.Sprintf("mx-%d", i)))
		_ = X.ML().UpdateNode(3 * time.Second)
	}
	mu.Lock()
	lossy = true
	mu.Unlock()
	Settle(sc.LeaveAt)
	if !c.Converged() && sc.Loss == 0 {
		fail("harness/not-converged", "cluster not converged before the leave")
		return
	}
	if sc.SuspectPeers {
		for _, p := range peers {
			if r := X.Record(p.Name); r != nil {
				c.Net.Inject(X.EP, peers[0].EP.Addr, BuildPacket(PacketCfg{}, Enc(TSuspect, &WSuspect{Incarnation: r.Incarnation, Node: p.Name, From: "ghost"}), rng))
			}
		}
		Settle(time.Millisecond)
	}
	sawOthers := len(X.MemberNames()) > 1
	// the accusation race, through the failpoint inside Leave
	raced := false
	if sc.Race != "" {
		memberlist.VerifSetPoint(func(m *memberlist.Memberlist, point string) {
			if m != X.ML() || point != "leave.before-dead" || raced {
				return
			}
			raced = true
			cur := m.VerifDump().Incarnation
			inc := uint32(int64(cur) + int64(sc.RaceRel))
			var msg []byte
			if sc.Race == "suspect" {
				msg = Enc(TSuspect, &WSuspect{Incarnation: inc, Node: X.Name, From: peers[0].Name})
			} else {
				msg = Enc(TDead, &WDead{Incarnation: inc, Node: X.Name, From: peers[0].Name})
			}
			c.Net.Inject(X.EP, peers[0].EP.Addr, BuildPacket(PacketCfg{}, msg, rng))
			time.Sleep(time.Millisecond) // the accusation is processed while Leave sits between reading its incarnation and applying the departure
		})
	}
	var metaGate chan struct{}
	if sc.UpdateInFlight {
		metaGate = make(chan struct{})
		entered := make(chan struct{})
		X.Del.mu.Lock()
		X.Del.MetaGate, X.Del.MetaEntered = metaGate, entered
		X.Del.mu.Unlock()
		X.Del.SetMeta([]byte("meta-of-an-update-that-was-overtaken-by-leave"))
		go func() { _ = X.ML().UpdateNode(2 * time.Second) }()
		parked := false
		for i := 0; i < 100 && !parked; i++ {
			Settle(time.Millisecond)
			select {
			case <-entered:
				parked = true
			default:
			}
		}
		if !parked {
			fail("harness/update-not-parked", "UpdateNode never reached the NodeMeta callback")
			close(metaGate)
			return
		}
		run.Cell("leave", "update-in-flight")
	}
	leaveInc := X.ML().VerifDump().Incarnation
	var leaveErr error
	var took time.Duration
	done := make(chan struct{})
	t0 := time.Now()
	go func() {
		leaveErr = X.ML().Leave(sc.Timeout)
		took = time.Since(t0)
		close(done)
	}()
	select {
	case <-done:
	case <-time.After(sc.Timeout + 5*time.Second):
		fail("leave-blocked", "Leave(%v) still blocked %v after the call", sc.Timeout, time.Since(t0))
		return
	}
	memberlist.VerifSetPoint(nil)
	if metaGate != nil {
		// Leave has returned: now the parked UpdateNode continues
		X.Del.mu.Lock()
		X.Del.MetaGate = nil
		X.Del.mu.Unlock()
		close(metaGate)
		Settle(10 * time.Millisecond)
	}
	if sc.Race != "" {
		if !raced {
			fail("harness/failpoint-not-reached", "the failpoint inside Leave was never reached")
		} else {
			run.Cell("race", sc.Race, fmt.Sprintf("%+d", sc.RaceRel))
		}
	}
	if sc.LongName {
		run.Cell("leave", "name-700-bytes", fmt.Sprintf("err=%v", leaveErr != nil))
	}
	run.Cell("leave", sc.Mode, fmt.Sprintf("race=%s%+d", sc.Race, sc.RaceRel), fmt.Sprintf("err=%v", leaveErr != nil), fmt.Sprintf("suspects-all=%v", sc.SuspectPeers))
	if took > sc.Timeout+time.Millisecond {
		fail("leave-overran-timeout", "Leave(%v) returned after %v", sc.Timeout, took)
	}
	if leaveErr != nil {
		// no promise was made; but a second call must not claim success without doing the work
		err2 := X.ML().Leave(sc.Timeout)
		if err2 != nil {
			return
		}
		run.Cell("leave", "second-call-after-error")
	}
	if sc.Mode == "departing" {
		c.Stop(X)
	}
	mu.Lock()
	lossy = false
	mu.Unlock()
	// (a) somebody live was told
	Settle(500 * time.Millisecond)
	tapMu.Lock()
	dep := departures
	alives := append([][]byte(nil), oldAlives...)
	tapMu.Unlock()
	if sawOthers && dep == 0 {
		nm := X.Name
		if len(nm) > 40 {
			nm = nm[:40] + "..."
		}
		if sc.LongName && leaveErr != nil {
			// registered finding: the first Leave rightly failed (the departure, which carries the 700-byte name
			// twice, fits no packet), but a second Leave call reports success without having sent anything
			fail("no-departure-sent/second-leave-after-timeout/oversize-departure", "the first Leave(%v) returned %q; a second Leave returned nil although no packet carrying the departure (dead{Node=From=%s}, %d-byte name) has left or can leave", sc.Timeout, leaveErr, nm, len(X.Name))
			return
		}
		fail("no-departure-sent", "Leave returned nil with %d other members known, but no packet carrying the departure (dead{Node=From=%s}) left for a live peer", len(peers), nm)
	}
	if sc.LongName {
		return // the rest of the scenario is about a departure that was announced
	}
	// settle, then (b)
	Settle(30 * time.Second)
	if sc.Replay {
		// old alive messages of X (incarnation <= the departure's) are re-delivered to everyone, X included
		for _, a := range alives {
			var al WAlive
			if mpDecode(a[1:], &al) != nil || al.Incarnation > leaveInc {
				continue
			}
			for _, p := range c.Nodes {
				if !p.Stopped {
					c.Net.Inject(p.EP, peers[0].EP.Addr, a)
				}
			}
		}
		// ... and crafted ones that are 'no newer than the departure' but differ in content (what a
		// stale copy from before a metadata change looks like to the leaver itself)
		xr := X.Record(X.Name)
		if xr == nil {
			for _, p := range peers {
				if xr = p.Record(X.Name); xr != nil {
					break
				}
			}
		}
		if xr != nil {
			for _, inc := range []uint32{leaveInc, leaveInc - 1} {
				if inc == 0 {
					continue
				}
				m := Enc(TAlive, &WAlive{Incarnation: inc, Node: X.Name, Addr: xr.Addr, Port: xr.Port, Meta: []byte("stale-other-meta"), Vsn: DefaultVsn()})
				for _, p := range c.Nodes {
					if !p.Stopped {
						c.Net.Inject(p.EP, peers[0].EP.Addr, m)
					}
				}
			}
		}
		Settle(5 * time.Second)
	}
	check := func(when string) {
		for _, p := range peers {
			r := p.Record(X.Name)
			listed := false
			for _, nm := range p.MemberNames() {
				if nm == X.Name {
					listed = true
				}
			}
			if sc.Mode == "responsive" {
				if r != nil && r.Incarnation <= leaveInc+1 && r.State != memberlist.StateLeft {
					fail("peer-not-left/"+StateNames[r.State], "%s: %s holds the leaver as %s after a successful Leave at incarnation %d (responsive leaver, loss-free)", when, p.Name, recString(r), leaveInc)
				}
				leaves := 0
				for _, e := range p.Ev.Log() {
					if e.Name == X.Name && e.Kind == "leave" {
						leaves++
					}
				}
				if r != nil && r.State == memberlist.StateLeft && leaves != 1 {
					fail("leave-event-count", "%s: %s delivered %d leave events for the leaver", when, p.Name, leaves)
				}
			}
			if listed && (sc.Mode == "responsive" || when == "final") {
				fail("leaver-listed/"+when, "%s: %s still lists the departed node in Members() (%s)", when, p.Name, recString(r))
			}
		}
		if !X.Stopped {
			self := X.Record(X.Name)
			if self == nil || self.State != memberlist.StateLeft {
				fail("leaver-self-not-left", "%s: the leaver's own record is %s", when, recString(self))
			}
			for _, nm := range X.MemberNames() {
				if nm == X.Name {
					fail("leaver-lists-itself", "%s: the leaver lists itself as a live member again", when)
				}
			}
		}
	}
	if sc.Mode == "responsive" {
		check("settled")
		Settle(60 * time.Second) // X keeps gossiping its queue, peers keep push/pulling with each other
		check("final")
	} else {
		Settle(90 * time.Second) // peers that never heard the departure find out by probing
		check("final")
	}
	c.CheckQuiescent()
	for _, p := range c.Problems() {
		out = append(out, &c01Result{p.Key, p.What})
	}
	return
}

func TestC08(t *testing.T) {
	run := NewRun(t, "C08", "exploration",
		"(A) name/address hijack on one real node: prior state {alive, suspect, dead recent, dead past reclaim time, left, left long ago} x DeadNodeReclaimTime {0, 5 s} x claimed incarnation {<,=,>} x difference {addr, port, both} x carrier {packet, compound, push/pull, join push/pull}: protected members must stay byte-identical, fire no event and exactly one conflict callback with the right arguments; departed and long-dead names must be adopted by the new address at once (one join event), whatever the incarnation. (B) Leave on real 3-6 node clusters with delay/duplication/reordering (responsive leaver, loss-free) or loss + immediate shutdown (departing leaver): a departure packet left for a live peer, peers that held it at <= the departure's incarnation record it as LEFT with exactly one leave event, it never reappears (also after re-delivery of its captured older alive messages to everyone incl. itself and 60 more seconds of gossip/anti-entropy), its own record stays left, Leave returns by its timeout. (C) the same with a suspect/dead accusation at incarnation cur-1/cur/cur+1 injected through the failpoint between Leave reading its incarnation and applying the departure; if the first Leave fails a second call must not report success without doing the work. Cell = hijack tuple / (mode, race, error).")
	defer run.Finish()
	run.Assume("responsive leavers run on a loss-free network (delay, duplication, reordering only) so that nobody can rightly conclude 'failed'", "departing leavers shut down right after Leave: only the departure packet, final absence and no-resurrection are asserted")
	ci := 0
	for _, reclaim := range []time.Duration{0, 5 * time.Second} {
		for _, carrier := range []string{"packet", "compound", "pp", "ppjoin"} {
			ci++
			id := fmt.Sprintf("hijack/%v/%s", reclaim, carrier)
			if !run.Mine(ci) || !run.Want(id) {
				continue
			}
			run.Journal(id, "")
			var res []*c01Result
			err := Bubble(t, func() { res = runC08Hijack(run, run.Seed()+int64(ci), reclaim, carrier) })
			if err != nil {
				res = append(res, &c01Result{"C08/bubble", err.Error()})
			}
			for _, r := range res {
				run.Violation(id, r.Key, r.What, map[string]any{"reclaim": reclaim.String(), "carrier": carrier})
			}
		}
	}
	n := run.Pick(216, 24000)
	for i := 0; i < n; i++ {
		if !run.Mine(i) {
			continue
		}
		id := fmt.Sprintf("leave/%d", i)
		if !run.Want(id) {
			continue
		}
		rng := run.RNG(id)
		sc := c08Leave{
			N:       3 + rng.Intn(4),
			Mode:    []string{"responsive", "responsive", "departing"}[rng.Intn(3)],
			Delay:   []time.Duration{0, 20 * time.Millisecond, 300 * time.Millisecond}[rng.Intn(3)],
			Dup:     []float64{0, 0.3}[rng.Intn(2)],
			LeaveAt: time.Duration(500+rng.Intn(8000)) * time.Millisecond,
			Timeout: []time.Duration{2 * time.Second, 10 * time.Second}[rng.Intn(2)],
			Updates: rng.Intn(3),
			Replay:  rng.Intn(2) == 0,
		}
		if sc.Mode == "departing" {
			sc.Loss = []float64{0, 0.3, 0.7}[rng.Intn(3)]
		}
		if i%5 == 1 {
			sc.SuspectPeers = true
		}
		if i%6 == 2 && sc.Mode == "responsive" {
			sc.UpdateInFlight = true
		}
		if i%9 == 4 {
			sc.LongName = true
			sc.Timeout = 2 * time.Second
		}
		// every third scenario exercises the accusation race
		if i%3 == 0 {
			sc.Race = []string{"suspect", "dead"}[(i/3)%2]
			sc.RaceRel = []int{-1, 0, 1}[(i/6)%3]
			sc.Mode = "responsive"
			sc.Loss = 0
		}
		run.Journal(id, fmt.Sprintf("%+v", sc))
		var res []*c01Result
		var logs map[string][]string
		err := Bubble(t, func() { res, logs = runC08Leave(run, run.Seed()*613+int64(i), sc, rng) })
		if err != nil {
			res = append(res, &c01Result{"C08/bubble", err.Error()})
		}
		run.Eval(1)
		for _, r := range res {
			key := r.Key
			if sc.Race != "" {
				key = fmt.Sprintf("%s@race/%s%+d", r.Key, sc.Race, sc.RaceRel)
			}
			run.Violation(id, key, r.What, map[string]any{"scenario": sc, "logs": logs})
		}
		if i == 1 {
			run.Sample(sc)
		}
	}
	for i, nm := range []int{1500} {
		id := fmt.Sprintf("backlog/%d", nm)
		if !run.Mine(i+5) || !run.Want(id) {
			continue
		}
		run.Journal(id, "")
		var res []*c01Result
		err := Bubble(t, func() { res = runC08Backlog(run, run.Seed()*71+int64(i), nm) })
		if err != nil {
			res = append(res, &c01Result{"C08/bubble", err.Error()})
		}
		for _, r := range res {
			run.Violation(id, r.Key, r.What, map[string]any{"members": nm})
		}
	}
	for i := 0; i < run.Pick(6, 200); i++ {
		variant := []string{"overlapping-leaves", "update-in-alive-delegate"}[i%2]
		id := fmt.Sprintf("real/%s/%d", variant, i)
		if !run.Mine(i) || !run.Want(id) {
			continue
		}
		run.Journal(id, "")
		res, inc := runC08Overlap(run, i, variant)
		run.Eval(1)
		if inc != "" {
			run.Note("real-time scenario %s inconclusive: %s", id, inc)
			run.Count("real_inconclusive", 1)
		}
		for _, r := range res {
			run.Violation(id, r.Key, r.What, map[string]any{"variant": variant})
		}
	}
	if !run.Replaying() {
		for _, k := range []string{"suspect", "dead"} {
			for _, r := range []int{-1, 0, 1} {
				run.Require(fmt.Sprintf("race|%s|%+d", k, r))
			}
		}
		run.Require("leave|update-in-flight")
		run.Require("real|overlapping-leaves", "real|update-in-alive-delegate", "leave|behind-backlog|members>=1500")
	}
	run.Complete()
	if run.Violations() > 0 {
		t.Errorf("%d violation(s)", run.Violations())
	}
}

// runC08Backlog: Leave is called while the node's broadcast queue holds well over a thousand announcements it has
// not transmitted yet (it has just merged a large cluster's state). The departure queues behind them; when Leave
// returns nil a datagram carrying it must have left the node.
func runC08Backlog(run *Run, seed int64, members int) (out []*c01Result) {
	fail := func(key, f string, a ...any) {
		out = append(out, &c01Result{"C08/" + key, fmt.Sprintf(f, a...)})
	}
	rig, err := NewRig(RigOpts{Seed: seed, Spec: NodeSpec{Name: "V", IP: "10.9.9.9", NoEvents: true, Mutate: func(cf *memberlist.Config) {
		cf.ProbeInterval = noProbe
		cf.PushPullInterval = 0
		cf.GossipInterval = 200 * time.Millisecond
	}}})
	if err != nil {
		fail("harness/create", "%v", err)
		return
	}
	defer rig.Close()
	var departures atomic.Int64
	rig.C.Net.OnPacket = append(rig.C.Net.OnPacket, func(ev *PacketEvent) {
		if ev.From != rig.V.EP.Addr || ev.Closed {
			return
		}
		pi := ParsePacket(ev.Buf, rig.Keys)
		if pi.Err != nil {
			return
		}
		for _, l := range pi.Leaves {
			var d WDead
			if l.Type == TDead && mpDecode(l.Body, &d) == nil && d.Node == "V" && d.From == "V" {
				departures.Add(1)
			}
		}
	})
	x := rig.AddPeer("x", "10.9.1.1", 7946)
	rig.Introduce(x, 1)
	Settle(3 * time.Second) // the node's own first announcement has gone out
	nodes := []WPushNodeState{x.Self(1)}
	for i := 0; i < members; i++ {
		nodes = append(nodes, WPushNodeState{Name: fmt.Sprintf("member-%04d", i), Addr: []byte{10, 20, byte(i / 250), byte(1 + i%250)}, Port: 7946, Incarnation: 1, State: SAlive, Meta: []byte("some-metadata"), Vsn: DefaultVsn()})
	}
	if _, _, err := x.PushPull(false, nodes, nil); err != nil {
		fail("harness/pushpull", "%v", err)
		return
	}
	Settle(time.Millisecond)
	queued := rig.V.ML().VerifNumQueued()
	run.Cell("leave", "behind-backlog", fmt.Sprintf("members>=%d", 500*(members/500)))
	errc := make(chan error, 1)
	go func() { errc <- rig.V.ML().Leave(5 * time.Minute) }()
	var lerr error
	select {
	case lerr = <-errc:
	case <-time.After(10 * time.Minute):
		fail("leave-blocked-past-timeout", "Leave(5m) behind %d queued broadcasts had not returned after 10 minutes", queued)
		return
	}
	run.Eval(1)
	if lerr == nil && departures.Load() == 0 {
		fail("no-departure-sent/behind-backlog", "Leave returned nil with %d other members known and %d broadcasts queued ahead of the departure, but no datagram carrying the departure (dead{Node=From=V}) has left the node", members+1, queued)
	}
	return
}
