package harness

// C20, additional scenarios found necessary by the second round of seeded changes.

import (
	"bytes"
	"fmt"
	"io"
	"log"
	"net"
	"strings"
	"time"

	"github.com/hashicorp/memberlist"
)

// runC20Blackhole: Shutdown while a probe of a black-holed member (datagrams vanish, TCP SYNs are never
// answered) is in its TCP-fallback phase. One awareness-scaled probe interval after Shutdown returned
// no goroutine of the probe (probeNode, its fallback dial) may be left.
func runC20Blackhole(run *Run, seed int64, health int) (out []*c01Result) {
	fail := func(key, f string, a ...any) {
		out = append(out, &c01Result{"C20/" + key, fmt.Sprintf(f, a...)})
	}
	rig, err := NewRig(RigOpts{Seed: seed, Spec: NodeSpec{Name: "V", IP: "10.9.9.9", Mutate: func(cf *memberlist.Config) {
		cf.ProbeInterval = time.Second
		cf.ProbeTimeout = 300 * time.Millisecond
		cf.PushPullInterval = 0
		cf.GossipInterval = 0
		cf.IndirectChecks = 1
		cf.DisableTcpPings = false
		cf.TCPTimeout = 10 * time.Second
	}}})
	if err != nil {
		fail("harness/create", "%v", err)
		return
	}
	defer rig.Close()
	V := rig.V
	B := rig.AddPeer("B", "10.9.1.1", 7946)
	rig.Introduce(B, 1)
	Settle(time.Millisecond)
	for i := 0; i < health; i++ { // raise the health score: the probe interval scales with it
		B.Send(Enc(TSuspect, &WSuspect{Incarnation: uint32(1000 * (i + 1)), Node: "V", From: "B"}))
		Settle(time.Millisecond)
	}
	B.EP.Crash() // from now on: datagrams vanish, SYNs are never answered
	// wait until the probe has given up on UDP and is dialling
	dialling := false
	for i := 0; i < 4000 && !dialling; i++ {
		Settle(time.Millisecond)
		for _, g := range MemberlistGoroutines() {
			if strings.Contains(g, "sendPingAndWaitForAck") {
				dialling = true
			}
		}
	}
	if !dialling {
		fail("harness/no-fallback", "the probe never reached its TCP fallback")
		return
	}
	hs := V.ML().GetHealthScore()
	if err := V.ML().Shutdown(); err != nil {
		fail("shutdown-error", "%v", err)
	}
	V.Stopped = true
	run.Cell("blackhole", fmt.Sprintf("health=%d", hs))
	interval := time.Duration(hs+1) * V.Conf.ProbeInterval
	Settle(interval + 50*time.Millisecond)
	for _, g := range MemberlistGoroutines() {
		if strings.Contains(g, "probeNode") || strings.Contains(g, "sendPingAndWaitForAck") {
			fail("probe-outlives-shutdown", "one awareness-scaled probe interval (%v at health score %d) after Shutdown returned, the in-flight probe of a black-holed member is still running: %.400s", interval, hs, g)
			break
		}
	}
	Settle(V.Conf.TCPTimeout + time.Second) // let a lingering dial end before the bubble closes
	return
}

type bigStateDelegate struct {
	state []byte
}

func (d *bigStateDelegate) NodeMeta(int) []byte               { return nil }
func (d *bigStateDelegate) NotifyMsg([]byte)                  {}
func (d *bigStateDelegate) GetBroadcasts(int, int) [][]byte   { return nil }
func (d *bigStateDelegate) LocalState(join bool) []byte       { return d.state }
func (d *bigStateDelegate) MergeRemoteState(b []byte, j bool) {}

// runC20StalledPeer (real sockets, real time): a peer sends a genuine push/pull request and then never
// reads; the node's reply (a user state far larger than the socket buffers) blocks in the kernel. Leave
// with a 300 ms timeout, Members and LocalNode must all return promptly: the verdict limit is 8 s with
// a TCPTimeout of 40 s, so only a call that waits for the stalled write can exceed it.
func runC20StalledPeer(run *Run, iter int) (out []*c01Result) {
	fail := func(key, f string, a ...any) {
		out = append(out, &c01Result{"C20/real/" + key, fmt.Sprintf(f, a...)})
	}
	cf := memberlist.DefaultLocalConfig()
	cf.Name = fmt.Sprintf("stall-%d", iter)
	cf.BindAddr = "127.0.0.1"
	cf.BindPort = 0
	cf.AdvertisePort = 0
	cf.PushPullInterval = 0
	cf.TCPTimeout = 40 * time.Second
	cf.EnableCompression = false // (a constant 48 MiB state would shrink to nothing)
	cf.Logger = log.New(io.Discard, "", 0)
	cf.Delegate = &bigStateDelegate{state: bytes.Repeat([]byte{0x42}, 48<<20)}
	m, err := memberlist.Create(cf)
	if err != nil {
		fail("harness/create", "%v", err)
		return
	}
	defer m.Shutdown()
	conn, err := net.DialTimeout("tcp", m.LocalNode().Address(), 2*time.Second)
	if err != nil {
		run.Count("real_iterations_skipped_dial", 1)
		return
	}
	defer conn.Close()
	req := BuildPushPull(false, nil, nil)
	if _, err := conn.Write(req); err != nil {
		run.Count("real_iterations_skipped_dial", 1)
		return
	}
	time.Sleep(300 * time.Millisecond) // the reply is now stuck in the send buffer: we never read
	type res struct {
		call string
		took time.Duration
	}
	done := make(chan res, 3)
	t0 := time.Now()
	go func() { _ = m.Leave(300 * time.Millisecond); done <- res{"Leave(300ms)", time.Since(t0)} }()
	go func() { _ = m.Members(); done <- res{"Members", time.Since(t0)} }()
	go func() { _ = m.LocalNode(); done <- res{"LocalNode", time.Since(t0)} }()
	const limit = 8 * time.Second
	deadline := time.After(limit)
	got := 0
	for got < 3 {
		select {
		case r := <-done:
			got++
			run.Max("stalled_peer_call_seconds", r.took.Seconds())
			run.Cell("real-stalled-peer", r.call)
		case <-deadline:
			fail("blocked-by-stalled-peer", "%d of Leave(300ms)/Members/LocalNode had not returned %v after being called while a push/pull reply to a peer that stopped reading was blocked (TCPTimeout 40s)", 3-got, limit)
			return
		}
	}
	return
}
