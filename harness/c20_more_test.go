package harness

// C20, additional scenarios found necessary by the second round of seeded changes.

import (
	"bytes"
	"fmt"
	"io"
	"log"
	"math/rand"
	"net"
	"strings"
	"time"

	"github.com/hashicorp/memberlist"
)

// runC20Blackhole: Shutdown while a probe of a black-holed member (datagrams vanish, TCP SYNs are never
// answered) is in its TCP-fallback phase. One awareness-scaled probe interval after Shutdown returned
// no goroutine of the probe (probeNode, its fallback dial) may be left.
func runC20Blackhole(run *Run, seed int64, health int, hung bool) (out []*c01Result) {
	fail := func(key, f string, a ...any) {
		out = append(out, &c01Result{"C20/" + key, fmt.Sprintf(f, a...)})
	}
	rig, err := NewRig(RigOpts{Seed: seed, Spec: NodeSpec{Name: "V", IP: "10.9.9.9", Mutate: func(cf *memberlist.Config) {
		cf.ProbeInterval = time.Second
		cf.ProbeTimeout = 300 * time.Millisecond
		cf.PushPullInterval = 0
		cf.GossipInterval = 0
		cf.IndirectChecks = 1
		cf.DisableTcpPings = false
		cf.TCPTimeout = 10 * time.Second
	}}})
	if err != nil {
		fail("harness/create", "%v", err)
		return
	}
	defer rig.Close()
	V := rig.V
	B := rig.AddPeer("B", "10.9.1.1", 7946)
	rig.Introduce(B, 1)
	Settle(time.Millisecond)
	for i := 0; i < health; i++ { // raise the health score: the probe interval scales with it
		B.Send(Enc(TSuspect, &WSuspect{Incarnation: uint32(1000 * (i + 1)), Node: "V", From: "B"}))
		Settle(time.Millisecond)
	}
	if hung {
		B.Stop()    // nobody reads its datagrams any more ...
		B.EP.Hang() // ... and its listener still completes TCP handshakes but never answers (a wedged process)
	} else {
		B.EP.Crash() // from now on: datagrams vanish, SYNs are never answered
	}
	// wait until the probe has given up on UDP and is dialling
	dialling := false
	for i := 0; i < 4000 && !dialling; i++ {
		Settle(time.Millisecond)
		for _, g := range MemberlistGoroutines() {
			if strings.Contains(g, "sendPingAndWaitForAck") {
				dialling = true
			}
		}
	}
	if !dialling {
		fail("harness/no-fallback", "the probe never reached its TCP fallback")
		return
	}
	hs := V.ML().GetHealthScore()
	if err := V.ML().Shutdown(); err != nil {
		fail("shutdown-error", "%v", err)
	}
	V.Stopped = true
	run.Cell("blackhole", fmt.Sprintf("health=%d", hs), fmt.Sprintf("hung=%v", hung))
	interval := time.Duration(hs+1) * V.Conf.ProbeInterval
	Settle(interval + 50*time.Millisecond)
	for _, g := range MemberlistGoroutines() {
		if strings.Contains(g, "probeNode") || strings.Contains(g, "sendPingAndWaitForAck") {
			fail("probe-outlives-shutdown", "one awareness-scaled probe interval (%v at health score %d) after Shutdown returned, the in-flight probe of a black-holed member is still running: %.400s", interval, hs, g)
			break
		}
	}
	Settle(V.Conf.TCPTimeout + time.Second) // let a lingering dial end before the bubble closes
	return
}

type bigStateDelegate struct {
	state []byte
}

func (d *bigStateDelegate) NodeMeta(int) []byte               { return nil }
func (d *bigStateDelegate) NotifyMsg([]byte)                  {}
func (d *bigStateDelegate) GetBroadcasts(int, int) [][]byte   { return nil }
func (d *bigStateDelegate) LocalState(join bool) []byte       { return d.state }
func (d *bigStateDelegate) MergeRemoteState(b []byte, j bool) {}

// runC20StalledPeer (real sockets, real time): a peer sends a genuine push/pull request and then never
// reads; the node's reply (a 16 MiB user state, larger than the socket buffers) blocks in the kernel. Leave
// with a 300 ms timeout, Members and LocalNode must all return promptly: the verdict limit is 8 s with
// a TCPTimeout of 40 s, so only a call that waits for the stalled write can exceed it.
func runC20StalledPeer(run *Run, iter int) (out []*c01Result) {
	fail := func(key, f string, a ...any) {
		out = append(out, &c01Result{"C20/real/" + key, fmt.Sprintf(f, a...)})
	}
	cf := memberlist.DefaultLocalConfig()
	cf.Name = fmt.Sprintf("stall-%d", iter)
	cf.BindAddr = "127.0.0.1"
	cf.BindPort = 0
	cf.AdvertisePort = 0
	cf.PushPullInterval = 0
	cf.TCPTimeout = 40 * time.Second
	cf.EnableCompression = false // (a constant 48 MiB state would shrink to nothing)
	cf.Logger = log.New(io.Discard, "", 0)
	cf.Delegate = &bigStateDelegate{state: bytes.Repeat([]byte{0x42}, 16<<20)}
	m, err := memberlist.Create(cf)
	if err != nil {
		fail("harness/create", "%v", err)
		return
	}
	defer m.Shutdown()
	conn, err := net.DialTimeout("tcp", m.LocalNode().Address(), 2*time.Second)
	if err != nil {
		run.Count("real_iterations_skipped_dial", 1)
		return
	}
	defer conn.Close()
	if tc, ok := conn.(*net.TCPConn); ok {
		_ = tc.SetReadBuffer(64 << 10) // we never read: keep what the kernel buffers on our side small
	}
	Heartbeat()
	req := BuildPushPull(false, nil, nil)
	if _, err := conn.Write(req); err != nil {
		run.Count("real_iterations_skipped_dial", 1)
		return
	}
	time.Sleep(300 * time.Millisecond) // the reply is now stuck in the send buffer: we never read
	type res struct {
		call string
		took time.Duration
	}
	done := make(chan res, 3)
	t0 := time.Now()
	go func() { _ = m.Leave(300 * time.Millisecond); done <- res{"Leave(300ms)", time.Since(t0)} }()
	go func() { _ = m.Members(); done <- res{"Members", time.Since(t0)} }()
	go func() { _ = m.LocalNode(); done <- res{"LocalNode", time.Since(t0)} }()
	const limit = 8 * time.Second
	deadline := time.After(limit)
	got := 0
	for got < 3 {
		select {
		case r := <-done:
			got++
			run.Max("stalled_peer_call_seconds", r.took.Seconds())
			run.Cell("real-stalled-peer", r.call)
		case <-deadline:
			fail("blocked-by-stalled-peer", "%d of Leave(300ms)/Members/LocalNode had not returned %v after being called while a push/pull reply to a peer that stopped reading was blocked (TCPTimeout 40s)", 3-got, limit)
			return
		}
	}
	return
}

// runC20LastStanding: every other member has left gracefully (their records are still in the table,
// not yet reaped). Leave and UpdateNode of the last node have nobody to wait for: they must return
// without error well before their timeout.
func runC20LastStanding(run *Run, seed int64, peers int, call string) (out []*c01Result) {
	fail := func(key, f string, a ...any) {
		out = append(out, &c01Result{"C20/" + key, fmt.Sprintf(f, a...)})
	}
	rig, err := NewRig(RigOpts{Seed: seed, Spec: NodeSpec{Name: "V", IP: "10.9.9.9", Mutate: func(cf *memberlist.Config) {
		cf.ProbeInterval = noProbe
		cf.PushPullInterval = 0
		cf.GossipInterval = 200 * time.Millisecond
		cf.GossipToTheDeadTime = 30 * time.Second
	}}})
	if err != nil {
		fail("harness/create", "%v", err)
		return
	}
	defer rig.Close()
	V := rig.V
	var ps []*FakePeer
	for i := 0; i < peers; i++ {
		p := rig.AddPeer(fmt.Sprintf("p%d", i), fmt.Sprintf("10.9.1.%d", i+1), 7946)
		rig.Introduce(p, 1)
		ps = append(ps, p)
	}
	Settle(time.Second)
	for _, p := range ps {
		p.Send(Enc(TDead, &WDead{Incarnation: 1, Node: p.Name, From: p.Name}))
	}
	Settle(2 * time.Second)
	if n := V.ML().NumMembers(); n != 1 {
		fail("harness/setup", "expected the node to be alone, it lists %d members", n)
		return
	}
	const timeout = 5 * time.Second
	t0 := time.Now()
	done := make(chan error, 1)
	go func() {
		if call == "Leave" {
			done <- V.ML().Leave(timeout)
		} else {
			V.Del.SetMeta([]byte("new-meta"))
			done <- V.ML().UpdateNode(timeout)
		}
	}()
	var cerr error
	returned := false
	for i := 0; i < 80 && !returned; i++ {
		Settle(100 * time.Millisecond)
		select {
		case cerr = <-done:
			returned = true
		default:
		}
	}
	took := time.Since(t0)
	run.Cell("last-standing", call, fmt.Sprintf("peers=%d", peers))
	switch {
	case !returned:
		fail("blocked/"+call+"@last-standing", "%s(%v) had not returned after %v although every other member has left", call, timeout, took)
		Settle(timeout)
	case cerr != nil:
		fail("spurious-error/"+call+"@last-standing", "%s(%v) returned %q after %v although there was nobody left to wait for", call, timeout, cerr, took)
	case took > time.Second:
		fail("slow/"+call+"@last-standing", "%s(%v) took %v although there was nobody left to wait for", call, timeout, took)
	}
	return
}

type gateDelegate struct {
	gate    chan struct{}
	entered chan struct{}
	once    bool
}

func (d *gateDelegate) NodeMeta(int) []byte { return nil }
func (d *gateDelegate) NotifyMsg([]byte) {
	if !d.once {
		d.once = true
		close(d.entered)
		<-d.gate
	}
}
func (d *gateDelegate) GetBroadcasts(int, int) [][]byte   { return nil }
func (d *gateDelegate) LocalState(join bool) []byte       { return nil }
func (d *gateDelegate) MergeRemoteState(b []byte, j bool) {}

// runC20StalledDelegate (real sockets, real time): the application's NotifyMsg is stuck, further user
// datagrams keep arriving, then Shutdown is called. It must return (limit 8 s; nothing in the
// configuration waits that long) although the packet handler cannot make progress.
func runC20StalledDelegate(run *Run, iter int) (out []*c01Result) {
	fail := func(key, f string, a ...any) {
		out = append(out, &c01Result{"C20/real/" + key, fmt.Sprintf(f, a...)})
	}
	d := &gateDelegate{gate: make(chan struct{}), entered: make(chan struct{})}
	cf := memberlist.DefaultLocalConfig()
	cf.Name = fmt.Sprintf("stalldel-%d", iter)
	cf.BindAddr = "127.0.0.1"
	cf.BindPort = 0
	cf.AdvertisePort = 0
	cf.PushPullInterval = 0
	cf.Logger = log.New(io.Discard, "", 0)
	cf.Delegate = d
	m, err := memberlist.Create(cf)
	if err != nil {
		fail("harness/create", "%v", err)
		return
	}
	released := false
	defer func() {
		if !released {
			close(d.gate)
		}
		_ = m.Shutdown()
	}()
	conn, err := net.Dial("udp", m.LocalNode().Address())
	if err != nil {
		run.Count("real_iterations_skipped_dial", 1)
		return
	}
	defer conn.Close()
	send := func(i int) { _, _ = conn.Write(append([]byte{TUser}, []byte(fmt.Sprintf("msg-%d", i))...)) }
	send(0)
	select {
	case <-d.entered:
	case <-time.After(3 * time.Second):
		run.Count("real_iterations_skipped_udp_lost", 1)
		return
	}
	for i := 1; i <= 12; i++ {
		send(i)
		time.Sleep(5 * time.Millisecond)
	}
	time.Sleep(100 * time.Millisecond)
	done := make(chan struct{})
	t0 := time.Now()
	go func() { _ = m.Shutdown(); close(done) }()
	select {
	case <-done:
		run.Max("shutdown_with_stalled_delegate_seconds", time.Since(t0).Seconds())
		run.Cell("real-stalled-delegate", "Shutdown")
	case <-time.After(8 * time.Second):
		fail("shutdown-blocked-by-stalled-delegate", "Shutdown had not returned 8s after being called while the application's NotifyMsg was stuck and 12 more user datagrams had arrived")
		close(d.gate)
		released = true
		<-done
	}
	return
}

// runC20OnlyPushPull: a configuration in which anti-entropy is the only periodic activity (probing and
// gossip are switched off by zero intervals). After Shutdown no background goroutine may be left and
// nothing may be dialled any more.
func runC20OnlyPushPull(run *Run, seed int64, withPeer bool) (out []*c01Result) {
	fail := func(key, f string, a ...any) {
		out = append(out, &c01Result{"C20/" + key, fmt.Sprintf(f, a...)})
	}
	rig, err := NewRig(RigOpts{Seed: seed, Spec: NodeSpec{Name: "V", IP: "10.9.9.9", Mutate: func(cf *memberlist.Config) {
		cf.ProbeInterval = 0
		cf.GossipInterval = 0
		cf.PushPullInterval = time.Second
		cf.TCPTimeout = 2 * time.Second
	}}})
	if err != nil {
		fail("harness/create", "%v", err)
		return
	}
	defer rig.Close()
	V := rig.V
	if withPeer {
		x := rig.AddPeer("x", "10.9.1.1", 7946)
		x.OnStream = func(c *ConnEnd) {
			_ = ReadAllUntil(c, 20*time.Millisecond)
			_, _ = c.Write(BuildPushPull(false, []WPushNodeState{x.Self(1)}, nil))
			time.Sleep(50 * time.Millisecond)
			c.Close()
		}
		rig.Introduce(x, 1)
	}
	Settle(3 * time.Second)
	if err := V.ML().Shutdown(); err != nil {
		fail("shutdown-error", "%v", err)
	}
	V.Stopped = true
	dialsAtShutdown := V.EP.DialsClosed.Load()
	run.Cell("only-pushpull", fmt.Sprintf("peer=%v", withPeer))
	Settle(5*time.Second + V.Conf.TCPTimeout)
	for _, fp := range rig.Peers {
		fp.Stop()
	}
	if g := MemberlistGoroutines(); len(g) > 0 {
		fail("goroutine-after-shutdown", "probing and gossip off, push/pull every second: %d goroutines with memberlist frames are still alive 7 s after Shutdown: %.300s", len(g), g[0])
	}
	if d := V.EP.DialsClosed.Load() - dialsAtShutdown; d > 0 {
		fail("traffic-after-shutdown", "%d dial attempts on the closed transport after Shutdown had returned (push/pull keeps running)", d)
	}
	return
}

// runC20DeafPeer: public calls that open a stream towards a member that completes the handshake and never reads
// (bounded socket buffers, a payload larger than they are). TCPTimeout is documented as the timeout "for stream
// read and write operations": the call must come back with an error about that long after it was made, Shutdown
// must then work and nothing may stay behind.
func runC20DeafPeer(run *Run, seed int64, call string) (out []*c01Result) {
	fail := func(key, f string, a ...any) {
		out = append(out, &c01Result{"C20/" + key, fmt.Sprintf(f, a...)})
	}
	const tcpTimeout = 2 * time.Second
	rig, err := NewRig(RigOpts{Seed: seed, Spec: NodeSpec{Name: "V", IP: "10.9.9.9", Mutate: func(cf *memberlist.Config) {
		cf.ProbeInterval = noProbe
		cf.PushPullInterval = 0
		cf.GossipInterval = 0
		cf.TCPTimeout = tcpTimeout
	}}})
	if err != nil {
		fail("harness/create", "%v", err)
		return
	}
	defer rig.Close()
	rig.C.Net.StreamWindow = 64 << 10
	big := make([]byte, 1<<20)
	rand.New(rand.NewSource(seed)).Read(big)
	h := rig.AddPeer("h", "10.9.4.4", 7946) // its connections queue up unread
	rig.Introduce(h, 1)
	Settle(time.Millisecond)
	m := rig.V.ML()
	var hn *memberlist.Node
	for _, n := range m.Members() {
		if n.Name == "h" {
			hn = n
		}
	}
	if hn == nil {
		fail("harness/no-peer", "the deaf peer was not admitted")
		return
	}
	t0 := time.Now()
	done := make(chan error, 1)
	switch call {
	case "SendReliable":
		go func() { done <- m.SendReliable(hn, big) }()
	case "Join":
		rig.V.Del.mu.Lock()
		rig.V.Del.State = big
		rig.V.Del.mu.Unlock()
		go func() { _, err := m.Join([]string{h.EP.Addr}); done <- err }()
	}
	run.Cell("deaf-peer", call)
	select {
	case err := <-done:
		if err == nil {
			fail("deaf-peer/no-error/"+call, "%s of %d bytes to a peer that never read them returned nil", call, len(big))
		}
		if d := time.Since(t0); d > tcpTimeout+time.Second {
			fail("deaf-peer/late/"+call, "%s returned %v after it was called, TCPTimeout is %v", call, d, tcpTimeout)
		}
	case <-time.After(15 * tcpTimeout):
		fail("blocked/"+call+"@deaf-peer", "%s towards a member that accepts the connection and never reads (payload %d bytes, socket buffers %d bytes) had not returned %v after it was called; TCPTimeout, documented as the timeout for stream write operations, is %v", call, len(big), rig.C.Net.StreamWindow, time.Since(t0), tcpTimeout)
	}
	if err := m.Shutdown(); err != nil {
		fail("shutdown-error", "%v", err)
	}
	rig.V.Stopped = true
	Settle(3 * tcpTimeout)
	if len(out) > 0 {
		// release whatever is stuck so that the bubble can end
		rig.C.Net.CloseAll()
		Settle(time.Second)
		return
	}
	for _, fp := range rig.Peers {
		fp.Stop()
	}
	if g := MemberlistGoroutines(); len(g) > 0 {
		fail("goroutine-after-shutdown", "%d goroutines with memberlist frames are alive 3 x TCPTimeout after Shutdown that followed %s to a deaf peer: %.300s", len(g), call, g[0])
	}
	return
}
