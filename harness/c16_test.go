package harness

// C16 — labels isolate logical clusters; label codec round trip.

import (
	"bytes"
	"fmt"
	"math/rand"
	"strings"
	"testing"
	"time"

	"github.com/hashicorp/memberlist"
)

func randLabel(rng *rand.Rand, n int) string {
	b := make([]byte, n)
	for i := range b {
		b[i] = byte(rng.Intn(256))
	}
	if rng.Intn(4) == 0 {
		b[0] = 244
	}
	return string(b)
}

func c16Packets(run *Run, rng *rand.Rand, id string) {
	lens := []int{0, 1, 2, 3, 15, 16, 255, 256, 1400, 5000}
	for ll := 1; ll <= 255; ll++ {
		label := randLabel(rng, ll)
		pl := lens[rng.Intn(len(lens))]
		payload := make([]byte, pl)
		rng.Read(payload)
		if pl > 0 && rng.Intn(3) == 0 {
			payload[0] = 244
		}
		var out, rest []byte
		var got string
		var err error
		if run.Guard(id, "C16/codec/packet-panic", map[string]any{"label_len": ll, "payload_len": pl}, func() {
			out, err = memberlist.AddLabelHeaderToPacket(payload, label)
			if err == nil {
				rest, got, err = memberlist.RemoveLabelHeaderFromPacket(out)
			}
		}) {
			return
		}
		run.Eval(1)
		run.Cell("packet-roundtrip", fmt.Sprintf("labellen=%d", bucket(ll)), fmt.Sprintf("payload=%d", pl))
		if err != nil || got != label || !bytes.Equal(rest, payload) {
			run.Violation(id, "C16/codec/packet-roundtrip", fmt.Sprintf("label of %d bytes, payload of %d bytes: err=%v label ok=%v payload ok=%v", ll, pl, err, got == label, bytes.Equal(rest, payload)), map[string]any{"label": []byte(label), "payload_len": pl})
			return
		}
		// every truncation of the header must be an error or a clean 'unlabelled', never a panic / partial label
		for cut := 0; cut < 2+ll && cut < len(out); cut++ {
			var r2 []byte
			var l2 string
			var e2 error
			if run.Guard(id, "C16/codec/packet-panic", map[string]any{"label_len": ll, "cut": cut}, func() {
				r2, l2, e2 = memberlist.RemoveLabelHeaderFromPacket(out[:cut])
			}) {
				return
			}
			if cut == 0 {
				continue
			}
			if e2 == nil {
				run.Violation(id, "C16/codec/truncated-accepted", fmt.Sprintf("header of a %d-byte label cut after %d bytes was accepted (label %q, %d bytes left)", ll, cut, l2, len(r2)), nil)
				return
			}
		}
	}
	// over-long label refused
	if _, err := memberlist.AddLabelHeaderToPacket([]byte("x"), strings.Repeat("L", 256)); err == nil {
		run.Violation(id, "C16/codec/overlong-accepted", "a 256-byte label was accepted", nil)
	}
	run.Cell("packet-roundtrip", "overlong-refused")
}

func bucket(n int) int {
	switch {
	case n <= 1:
		return 1
	case n <= 16:
		return 16
	case n < 255:
		return 254
	}
	return 255
}

func c16Streams(run *Run, rng *rand.Rand, id string, cases int) {
	net := NewNet(1)
	for i := 0; i < cases; i++ {
		ll := 1 + rng.Intn(255)
		if i%8 == 0 {
			ll = []int{1, 2, 254, 255}[rng.Intn(4)]
		}
		label := randLabel(rng, ll)
		pl := []int{0, 1, 2, 17, 300, 4096, 5000}[rng.Intn(7)]
		payload := make([]byte, pl)
		rng.Read(payload)
		if pl > 0 && rng.Intn(3) == 0 {
			payload[0] = 244
		}
		mode := []string{"one-write", "split-at", "bytewise", "chunked-read"}[rng.Intn(4)]
		c := net.NewLoosePair("1.1.1.1:1", "2.2.2.2:2")
		header := append([]byte{244, byte(ll)}, label...)
		all := append(append([]byte(nil), header...), payload...)
		split := -1
		switch mode {
		case "one-write":
			_, _ = c.Dialer.Write(all)
		case "split-at":
			split = 1 + rng.Intn(len(all))
			if rng.Intn(2) == 0 && len(header) > 2 {
				split = 1 + rng.Intn(len(header)) // inside the header
			}
			_, _ = c.Dialer.Write(all[:split])
			_, _ = c.Dialer.Write(all[split:])
		case "bytewise":
			for _, b := range all {
				_, _ = c.Dialer.Write([]byte{b})
			}
		case "chunked-read":
			c.Acceptor.SetReadChunk(1 + rng.Intn(7))
			_, _ = c.Dialer.Write(all)
		}
		c.Dialer.CloseWrite()
		var conn2 interface{ Read([]byte) (int, error) }
		var got string
		var err error
		var rest []byte
		if run.Guard(id, "C16/codec/stream-panic", map[string]any{"label_len": ll, "mode": mode, "split": split}, func() {
			nc, l, e := memberlist.RemoveLabelHeaderFromStream(c.Acceptor)
			got, err = l, e
			if e == nil {
				conn2 = nc
				buf := make([]byte, 1024)
				for {
					n, re := nc.Read(buf)
					rest = append(rest, buf[:n]...)
					if re != nil {
						break
					}
				}
			}
		}) {
			return
		}
		_ = conn2
		run.Eval(1)
		run.Cell("stream-roundtrip", mode, fmt.Sprintf("labellen=%d", bucket(ll)), fmt.Sprintf("payload=%d", pl))
		if err != nil || got != label || !bytes.Equal(rest, payload) {
			run.Violation(id, "C16/codec/stream-roundtrip/"+mode, fmt.Sprintf("stream with a %d-byte label and %d-byte payload, fragmentation %s (split %d): err=%v label ok=%v, got %d payload bytes, equal=%v", ll, pl, mode, split, err, got == label, len(rest), bytes.Equal(rest, payload)), map[string]any{"label": []byte(label)})
			return
		}
		c.Acceptor.Close()
		c.Dialer.Close()
		// two streams interleaved: A's header is removed while part of A's payload has already arrived,
		// then B's header is removed, and only then A and B are read to the end
		if i%3 == 0 {
			mk := func(lbl string, pay []byte) *Conn {
				p := net.NewLoosePair("1.1.1.1:1", "2.2.2.2:2")
				_, _ = p.Dialer.Write(append(append([]byte{244, byte(len(lbl))}, lbl...), pay...))
				p.Dialer.CloseWrite()
				return p
			}
			payA := append([]byte("AAAA-"), payload...)
			payB := bytes.Repeat([]byte("B"), 8+len(payload))
			lblB := "other-" + label
			if len(lblB) > 255 {
				lblB = lblB[:255]
			}
			pa, pb := mk(label, payA), mk(lblB, payB)
			var gotA, gotB []byte
			var la, lb string
			var ea, eb error
			if run.Guard(id, "C16/codec/stream-panic", map[string]any{"label_len": ll, "mode": "two-streams"}, func() {
				ca, l1, e1 := memberlist.RemoveLabelHeaderFromStream(pa.Acceptor)
				cb, l2, e2 := memberlist.RemoveLabelHeaderFromStream(pb.Acceptor)
				la, ea, lb, eb = l1, e1, l2, e2
				readAll := func(c interface{ Read([]byte) (int, error) }) (out []byte) {
					buf := make([]byte, 1024)
					for {
						n, re := c.Read(buf)
						out = append(out, buf[:n]...)
						if re != nil {
							return
						}
					}
				}
				if e1 == nil {
					gotA = readAll(ca)
				}
				if e2 == nil {
					gotB = readAll(cb)
				}
			}) {
				return
			}
			run.Cell("stream-roundtrip", "two-streams-interleaved", fmt.Sprintf("labellen=%d", bucket(ll)))
			if ea != nil || eb != nil || la != label || lb != lblB || !bytes.Equal(gotA, payA) || !bytes.Equal(gotB, payB) {
				run.Violation(id, "C16/codec/stream-roundtrip/two-streams", fmt.Sprintf("two streams whose headers were removed before either was read: A err=%v label ok=%v payload ok=%v (%d/%d bytes), B err=%v label ok=%v payload ok=%v", ea, la == label, bytes.Equal(gotA, payA), len(gotA), len(payA), eb, lb == lblB, bytes.Equal(gotB, payB)), nil)
				return
			}
			pa.Acceptor.Close()
			pa.Dialer.Close()
			pb.Acceptor.Close()
			pb.Dialer.Close()
		}
		// truncated header: error, not a partial label
		if i%4 == 0 {
			cut := 1 + rng.Intn(1+ll)
			c2 := net.NewLoosePair("1.1.1.1:1", "2.2.2.2:2")
			_, _ = c2.Dialer.Write(header[:cut])
			c2.Dialer.CloseWrite()
			var e2 error
			var l2 string
			if run.Guard(id, "C16/codec/stream-panic", map[string]any{"label_len": ll, "cut": cut}, func() {
				_, l2, e2 = memberlist.RemoveLabelHeaderFromStream(c2.Acceptor)
			}) {
				return
			}
			run.Cell("stream-truncated", fmt.Sprintf("labellen=%d", bucket(ll)))
			if e2 == nil {
				run.Violation(id, "C16/codec/stream-truncated-accepted", fmt.Sprintf("stream ending inside the header of a %d-byte label (after %d bytes) was accepted with label %q", ll, cut, l2), nil)
				return
			}
			c2.Acceptor.Close()
			c2.Dialer.Close()
		}
	}
}

// ---- isolation ----

type c16Case struct {
	Recv    string `json:"receiver_label"`
	Skip    bool   `json:"skip_inbound_check"`
	Carried string `json:"carried"` // "none" | label value
	Enc     bool   `json:"encrypted"`
}

// effect of one batch of traffic on V
type c16Effect struct {
	Acks, Relays, Msgs, Merged, Members, Events, StreamReplyBytes, Sent int
}

func runC16Iso(run *Run, seed int64, cs c16Case) (out []*c01Result) {
	fail := func(key, f string, a ...any) {
		out = append(out, &c01Result{"C16/" + key, fmt.Sprintf(f, a...)})
	}
	var key []byte
	if cs.Enc {
		key = bytes.Repeat([]byte{0x5a}, 16)
	}
	rig, err := NewRig(RigOpts{Seed: seed, Label: cs.Recv, Key: key, Spec: NodeSpec{Name: "V", IP: "10.9.9.9", Mutate: func(cf *memberlist.Config) {
		cf.ProbeInterval = noProbe
		cf.PushPullInterval = 0
		cf.SkipInboundLabelCheck = cs.Skip
	}}})
	if err != nil {
		fail("harness/create", "%v", err)
		return
	}
	defer rig.Close()
	x := rig.AddPeer("x", "10.9.1.1", 7946)
	tgt := rig.AddPeer("t", "10.9.1.2", 7946)
	carried := cs.Carried
	if carried == "none" {
		carried = ""
	}
	// what the sender seals with: a real foreign cluster binds ITS label; the worst case for the
	// receiver is traffic sealed with the receiver's own label but carrying another header, so both are tried
	send := func(aadLabel string) c16Effect {
		before := rig.Snap()
		sentB := len(rig.SentBy(0))
		nx, nt := len(x.Received()), len(tgt.Received())
		pc := PacketCfg{Label: carried, Key: key, EncVsn: 1}
		build := func(msg []byte) []byte {
			var body []byte
			m := msg
			if pc.Key != nil {
				m = Seal(1, pc.Key, msg, []byte(aadLabel), rig.Rng)
			}
			body = append(LabelHeader(carried), m...)
			return body
		}
		msgs := [][]byte{
			Enc(TPing, &WPing{SeqNo: 4242, Node: "V", SourceAddr: []byte(x.EP.IP), SourcePort: 7946, SourceNode: "x"}),
			Enc(TIndirectPing, &WIndirectPing{SeqNo: 4343, Target: []byte(tgt.EP.IP), Port: 7946, Node: "t", Nack: true, SourceAddr: []byte(x.EP.IP), SourcePort: 7946, SourceNode: "x"}),
			Enc(TAlive, &WAlive{Incarnation: 3, Node: "intruder", Addr: []byte{10, 9, 3, 3}, Port: 7946, Vsn: DefaultVsn()}),
			Enc(TSuspect, &WSuspect{Incarnation: 9, Node: "V", From: "x"}),
			Enc(TDead, &WDead{Incarnation: 9, Node: "V", From: "x"}),
			append([]byte{TUser}, []byte("user-payload")...),
			MakeCompound([][]byte{append([]byte{TUser}, []byte("in-compound")...), Enc(TAlive, &WAlive{Incarnation: 3, Node: "intruder2", Addr: []byte{10, 9, 3, 4}, Port: 7946, Vsn: DefaultVsn()})}),
		}
		for _, m := range msgs {
			x.SendRaw(build(m))
		}
		// streams: push/pull (join), reliable user message, TCP ping
		replyBytes := 0
		for _, sm := range [][]byte{
			BuildPushPull(true, []WPushNodeState{x.Self(1), {Name: "pp-intruder", Addr: []byte{10, 9, 3, 5}, Port: 7946, Incarnation: 2, State: SAlive, Vsn: DefaultVsn()}}, []byte("user-state")),
			BuildUserStream([]byte("reliable-payload")),
			Enc(TPing, &WPing{SeqNo: 4444, Node: "V"}),
		} {
			ce, err := x.EP.DialAddressTimeout(memberlist.Address{Addr: rig.V.EP.Addr, Name: "V"}, time.Second)
			if err != nil {
				continue
			}
			c := ce.(*ConnEnd)
			if h := LabelHeader(carried); h != nil {
				_, _ = c.Write(h)
			}
			frame := BuildStreamMsg(StreamCfg{Label: aadLabel, Key: key, EncVsn: 1}, sm, rig.Rng)
			_, _ = c.Write(frame)
			Settle(100 * time.Millisecond)
			replyBytes += len(drain(c))
			c.Close()
		}
		Settle(1200 * time.Millisecond) // beyond ProbeTimeout: relayed acks / nacks would have been sent
		after := rig.Snap()
		e := c16Effect{
			Msgs: after.Msgs - before.Msgs, Merged: after.Merged - before.Merged,
			Members: len(after.Members) - len(before.Members), Events: after.Events - before.Events,
			StreamReplyBytes: replyBytes, Sent: len(rig.SentBy(0)) - sentB,
		}
		for _, p := range x.Received()[nx:] {
			for _, l := range p.Info.Leaves {
				if l.Type == TAck || l.Type == TNack {
					e.Acks++
				}
			}
			if p.Info.Err != nil {
				e.Acks++ // something was sent back that we cannot even parse: still an emission
			}
		}
		e.Relays = len(tgt.Received()) - nt
		if before.Rec("V") != nil && after.Rec("V") != nil && after.Rec("V").Incarnation != before.Rec("V").Incarnation {
			e.Events += 1000 // the accusation was acted on
		}
		return e
	}
	accept := false
	switch {
	case cs.Skip:
		accept = cs.Carried == "none"
	case cs.Recv == "":
		accept = cs.Carried == "none"
	default:
		accept = cs.Carried == cs.Recv
	}
	aads := []string{cs.Recv}
	if carried != cs.Recv {
		aads = append(aads, carried)
	}
	for _, aad := range aads {
		e := send(aad)
		run.Eval(1)
		zero := e == c16Effect{}
		if accept && aad == cs.Recv {
			run.Cell("iso", "accept", fmt.Sprintf("recv=%d", len(cs.Recv)), fmt.Sprintf("skip=%v", cs.Skip), fmt.Sprintf("enc=%v", cs.Enc))
			// positive control: the right label must have its effect
			if e.Acks == 0 || e.Msgs == 0 || e.Members == 0 || e.Merged == 0 || e.StreamReplyBytes == 0 || e.Relays == 0 {
				fail("positive-control", "traffic carrying the receiver's own label had no effect (the isolation oracle would be blind): %+v case %+v", e, cs)
			}
		} else if !accept {
			run.Cell("iso", "reject", fmt.Sprintf("recv=%d", len(cs.Recv)), fmt.Sprintf("carried=%s", labelRel(cs)), fmt.Sprintf("skip=%v", cs.Skip), fmt.Sprintf("enc=%v", cs.Enc))
			if !zero {
				fail("leak/"+labelRel(cs)+fmt.Sprintf("/skip=%v", cs.Skip), "traffic for another label (receiver label %q, carried %q, sealed with %q as associated data, skip=%v, enc=%v) had an effect: %+v", cs.Recv, cs.Carried, aad, cs.Skip, cs.Enc, e)
			}
		}
	}
	rig.C.CheckQuiescent()
	for _, p := range rig.C.Problems() {
		out = append(out, &c01Result{p.Key, p.What})
	}
	return
}

func labelRel(cs c16Case) string {
	switch {
	case cs.Carried == "none":
		return "none"
	case cs.Carried == cs.Recv:
		return "equal"
	case cs.Recv != "" && strings.HasPrefix(cs.Carried, cs.Recv):
		return "extension"
	case cs.Recv != "" && strings.HasPrefix(cs.Recv, cs.Carried):
		return "prefix"
	}
	return "other"
}

func TestC16(t *testing.T) {
	run := NewRun(t, "C16", "exploration",
		"Codec: for every label length 1..255 (arbitrary bytes, often starting with the label marker 244) and payloads of 0..5000 bytes (often starting with 244) Add then Remove must return label and payload, every cut inside the header must be refused without panic; the stream pair is exercised over simulated connections with four fragmentations (single write, split at every position incl. inside the header, byte-wise writes, 1-7 byte reads) and truncated headers. Isolation: a real node with label in {'', 'a', 'ab', 255 x 'x'} and SkipInboundLabelCheck on/off, with and without encryption, receives every message type (ping, indirect ping, alive, suspect and dead about itself, user, compound; push/pull, reliable user message and TCP ping on streams) carrying no header / the same label / a prefix / an extension / another label, sealed with either the receiver's or the carried label as associated data; when the label does not match the effect must be empty (no ack/nack, no relay, no delegate call, no member, no event, no refutation, no stream reply byte, nothing sent); positive control: the right label has every effect. Cell = codec cell / (accept|reject, labels relation, skip, enc).")
	defer run.Finish()
	if run.Mine(0) && run.Want("codec/packets") {
		run.Journal("codec/packets", "")
		c16Packets(run, run.RNG("codec/packets"), "codec/packets")
	}
	for k := 0; k < run.Pick(8, 256); k++ {
		id := fmt.Sprintf("codec/streams/%d", k)
		if !run.Mine(k) || !run.Want(id) {
			continue
		}
		run.Journal(id, "")
		rng := run.RNG(id)
		err := Bubble(t, func() { c16Streams(run, rng, id, run.Pick(400, 4000)) })
		if err != nil {
			run.Violation(id, "C16/bubble", err.Error(), nil)
		}
	}
	long := strings.Repeat("x", 255)
	recvs := []string{"", "a", "ab", long}
	ci := 0
	for _, recv := range recvs {
		for _, skip := range []bool{false, true} {
			for _, enc := range []bool{false, true} {
				carrieds := []string{"none", "a", "ab", "abc", "b", long, long[:254]}
				for _, car := range carrieds {
					ci++
					cs := c16Case{Recv: recv, Skip: skip, Carried: car, Enc: enc}
					id := fmt.Sprintf("iso/%d", ci)
					if !run.Mine(ci) || !run.Want(id) {
						continue
					}
					run.Journal(id, fmt.Sprintf("recv=%d skip=%v car=%d enc=%v", len(recv), skip, len(car), enc))
					var res []*c01Result
					err := Bubble(t, func() { res = runC16Iso(run, run.Seed()+int64(ci), cs) })
					if err != nil {
						res = append(res, &c01Result{"C16/bubble", err.Error()})
					}
					for _, r := range res {
						w := cs
						if len(w.Recv) > 20 {
							w.Recv = fmt.Sprintf("%d x 'x'", len(w.Recv))
						}
						if len(w.Carried) > 20 {
							w.Carried = fmt.Sprintf("%d x 'x'", len(w.Carried))
						}
						run.Violation(id, r.Key, r.What, w)
					}
					if ci == 3 {
						run.Sample(cs)
					}
				}
			}
		}
	}
	for i, lc := range []struct {
		recv string
		skip bool
	}{{"lab", false}, {"", false}, {"lab", true}} {
		id := fmt.Sprintf("many/%d", i)
		if !run.Mine(i) || !run.Want(id) {
			continue
		}
		run.Journal(id, "")
		var res []*c01Result
		err := Bubble(t, func() { res = runC16Many(run, run.Seed()*61+int64(i), lc.recv, lc.skip) })
		if err != nil {
			res = append(res, &c01Result{"C16/bubble", err.Error()})
		}
		for _, r := range res {
			run.Violation(id, r.Key, r.What, map[string]any{"receiver_label": lc.recv, "skip": lc.skip})
		}
	}
	run.Complete()
	if run.Violations() > 0 {
		t.Errorf("%d violation(s)", run.Violations())
	}
}

// runC16Many: a long series of inbound streams for other labels (more than the 128 push/pull slots the
// node has) must leave no trace: afterwards no slot is held and a genuine exchange under the node's own
// label is served as before.
func runC16Many(run *Run, seed int64, recv string, skip bool) (out []*c01Result) {
	fail := func(key, f string, a ...any) {
		out = append(out, &c01Result{"C16/" + key, fmt.Sprintf(f, a...)})
	}
	rig, err := NewRig(RigOpts{Seed: seed, Label: recv, Spec: NodeSpec{Name: "V", IP: "10.9.9.9", Mutate: func(cf *memberlist.Config) {
		cf.ProbeInterval = noProbe
		cf.PushPullInterval = 0
		cf.GossipInterval = 0
		cf.SkipInboundLabelCheck = skip
		cf.TCPTimeout = 2 * time.Second
	}}})
	if err != nil {
		fail("harness/create", "%v", err)
		return
	}
	defer rig.Close()
	rig.NoHeader = skip
	x := rig.AddPeer("x", "10.9.1.1", 7946)
	rig.Introduce(x, 1)
	Settle(time.Millisecond)
	foreign := []string{recv + "x", "zz", strings.Repeat("L", 255)}
	if recv != "" && !skip {
		foreign = append(foreign, "", recv[:len(recv)-1])
	}
	for i := 0; i < 440; i++ {
		lb := foreign[i%len(foreign)]
		ce, err := x.EP.DialAddressTimeout(memberlist.Address{Addr: rig.V.EP.Addr, Name: "V"}, time.Second)
		if err != nil {
			fail("harness/dial", "%v", err)
			return
		}
		c := ce.(*ConnEnd)
		if i >= 140 {
			// (beyond the first 140) headers that are broken rather than foreign: the label cut short, a zero-length
			// label, only the header's first byte - then the stream ends
			hdr := LabelHeader("partial-label")
			switch i % 3 {
			case 0:
				_, _ = c.Write(hdr[:len(hdr)-4])
			case 1:
				_, _ = c.Write([]byte{hdr[0], 0})
			case 2:
				_, _ = c.Write(hdr[:1])
			}
			Settle(time.Millisecond)
			c.Close()
			continue
		}
		_, _ = c.Write(LabelHeader(lb))
		body := BuildPushPull(i%2 == 0, []WPushNodeState{{Name: fmt.Sprintf("intruder-%d", i), Addr: []byte{10, 9, 3, byte(i%250 + 1)}, Port: 7946, Incarnation: 1, State: SAlive, Vsn: DefaultVsn()}}, nil)
		if i%3 == 2 {
			body = Enc(TPing, &WPing{SeqNo: uint32(5000 + i), Node: "V"})
		}
		_, _ = c.Write(body)
		Settle(5 * time.Millisecond)
		if n := len(drain(c)); n > 0 {
			fail("leak/many", "stream #%d for label %q (receiver label %q, skip=%v) was answered with %d bytes", i, lb, recv, skip, n)
			c.Close()
			return
		}
		c.Close()
	}
	Settle(3 * time.Second)
	run.Eval(1)
	run.Cell("iso", "many-foreign-streams", fmt.Sprintf("recv=%d", len(recv)), fmt.Sprintf("skip=%v", skip))
	if n := rig.V.ML().VerifPushPullInFlight(); n != 0 {
		fail("leak/many/slots", "after 440 streams for other labels or with broken label headers the node holds %d of its push/pull slots although no stream is open (receiver label %q, skip=%v)", n, recv, skip)
		return
	}
	if len(rig.V.MemberNames()) != 2 {
		fail("leak/many", "membership changed: %v", rig.V.MemberNames())
	}
	frames, _, err := x.PushPull(true, []WPushNodeState{x.Self(1)}, nil)
	if err != nil || len(frames) == 0 {
		fail("leak/many/service", "after 440 streams for other labels or with broken label headers a genuine join push/pull under the node's own label is no longer served (err=%v, %d frames)", err, len(frames))
	}
	return
}
