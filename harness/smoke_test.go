package harness

import (
	"fmt"
	"testing"
	"testing/synctest"
	"time"
)

func TestSmoke(t *testing.T) {
	synctest.Test(t, func(t *testing.T) {
		c := NewCluster(1)
		defer func() {
			for _, g := range c.Drain() {
				t.Errorf("leaked: %s", g)
			}
		}()
		for i := 0; i < 5; i++ {
			n, err := c.Add(NodeSpec{Name: fmt.Sprintf("n%d", i), Meta: []byte(fmt.Sprintf("m%d", i))})
			if err != nil {
				t.Fatal(err)
			}
			if i > 0 {
				if _, err := n.ML().Join([]string{c.Nodes[0].EP.Addr}); err != nil {
					t.Fatal(err)
				}
			}
		}
		time.Sleep(10 * time.Second)
		synctest.Wait()
		c.CheckQuiescent()
		for _, n := range c.Nodes {
			t.Logf("%s members=%v health=%d", n.Name, n.MemberNames(), n.ML().GetHealthScore())
		}
		t0 := time.Now()
		c.Crash(c.Nodes[4])
		time.Sleep(30 * time.Second)
		synctest.Wait()
		c.CheckQuiescent()
		for _, n := range c.Nodes[:4] {
			t.Logf("%s members=%v", n.Name, n.MemberNames())
			for _, e := range n.Ev.Log() {
				if e.Kind == "leave" {
					t.Logf("  leave %s after %v", e.Name, e.At.Sub(t0))
				}
			}
		}
		for _, p := range c.Problems() {
			t.Errorf("problem: %+v", p)
		}
		t.Logf("packets=%d streams=%d", len(c.Net.Packets()), len(c.Net.Streams()))
	})
}
