package harness

// C10 — TransmitLimitedQueue vs. an executable reference model, in lock-step.

import (
	"fmt"
	"math"
	"math/rand"
	"runtime"
	"sort"
	"sync"
	"sync/atomic"
	"testing"
	"time"
	"unsafe"

	"github.com/anishathalye/porcupine"
	"github.com/hashicorp/memberlist"
)

const (
	kNamed = iota
	kUnique
	kPlain
)

var kindNames = []string{"named", "unique", "plain"}

type tb struct {
	uid   int
	kind  int
	name  string
	group int
	msg   []byte
	fin   atomic.Int32
	slow  bool // the completion callback takes a while (it yields the processor many times; it never blocks)
}

func (b *tb) Message() []byte { return b.msg }
func (b *tb) Finished() {
	if b.slow {
		for i := 0; i < 300; i++ {
			runtime.Gosched()
		}
	}
	b.fin.Add(1)
}
func (b *tb) Invalidates(o memberlist.Broadcast) bool {
	if b.kind != kPlain {
		return false
	}
	if p, ok := o.(*plainTB); ok {
		return p.group == b.group
	}
	return false
}

type namedTB struct{ *tb }

func (b namedTB) Name() string { return b.name }

type uniqueTB struct{ *tb }

func (uniqueTB) UniqueBroadcast() {}

type plainTB struct{ *tb }

func mkMsg(n int) []byte {
	buf := make([]byte, n+1)
	return buf[:n:n]
}

func msgID(m []byte) unsafe.Pointer { return unsafe.Pointer(unsafe.SliceData(m)) }

// ---- reference model ----

type qItem struct {
	b         *tb
	transmits int
	seq       int
}

type qModel struct {
	items []*qItem
	seq   int
}

func (q *qModel) remove(it *qItem) {
	for i, x := range q.items {
		if x == it {
			q.items = append(q.items[:i], q.items[i+1:]...)
			return
		}
	}
}

// queue returns the items that must be finished now.
func (q *qModel) queue(b *tb) (finished []*tb) {
	switch {
	case b.kind == kNamed && b.name != "":
		for _, it := range append([]*qItem(nil), q.items...) {
			if it.b.kind == kNamed && it.b.name == b.name {
				finished = append(finished, it.b)
				q.remove(it)
			}
		}
	case b.kind == kPlain:
		for _, it := range append([]*qItem(nil), q.items...) {
			if it.b.kind == kPlain && it.b.group == b.group {
				finished = append(finished, it.b)
				q.remove(it)
			}
		}
	}
	q.seq++
	q.items = append(q.items, &qItem{b: b, seq: q.seq})
	return
}

func retransmitLimitModel(mult, n int) int {
	return mult * int(math.Ceil(math.Log10(float64(n+1))))
}

// get returns the expected hand-out (in order) and the items finished by it.
func (q *qModel) get(overhead, limit, mult, numNodes int) (out []*tb, finished []*tb) {
	if len(q.items) == 0 {
		return nil, nil
	}
	tl := retransmitLimitModel(mult, numNodes)
	minT, maxT := math.MaxInt, math.MinInt
	for _, it := range q.items {
		if it.transmits < minT {
			minT = it.transmits
		}
		if it.transmits > maxT {
			maxT = it.transmits
		}
	}
	used := 0
	taken := map[*qItem]bool{}
	for tier := minT; tier <= maxT; {
		free := limit - used - overhead
		if free <= 0 {
			break
		}
		var best *qItem
		for _, it := range q.items {
			if taken[it] || it.transmits != tier || len(it.b.msg) > free {
				continue
			}
			if best == nil || len(it.b.msg) > len(best.b.msg) ||
				(len(it.b.msg) == len(best.b.msg) && it.seq > best.seq) {
				best = it
			}
		}
		if best == nil {
			tier++
			continue
		}
		taken[best] = true
		used += overhead + len(best.b.msg)
		out = append(out, best.b)
	}
	for _, it := range append([]*qItem(nil), q.items...) {
		if !taken[it] {
			continue
		}
		if it.transmits+1 >= tl {
			finished = append(finished, it.b)
			q.remove(it)
		} else {
			it.transmits++
		}
	}
	return
}

// ---- driver ----

type c10op struct {
	Op       string `json:"op"`
	Kind     string `json:"kind,omitempty"`
	Name     string `json:"name,omitempty"`
	Group    int    `json:"group,omitempty"`
	Len      int    `json:"len,omitempty"`
	UID      int    `json:"uid,omitempty"`
	Overhead int    `json:"overhead,omitempty"`
	Limit    int    `json:"limit,omitempty"`
	N        int    `json:"n,omitempty"`
	Mult     int    `json:"mult,omitempty"`
	NumNodes int    `json:"num_nodes,omitempty"`
}

type c10seq struct {
	Mult int     `json:"retransmit_mult"`
	Ops  []c10op `json:"ops"`
}

func genC10(rng *rand.Rand, nops int) c10seq {
	names := []string{"", "a", "b", "c"}
	lens := []int{1, 2, 3, 3, 3, 10, 10, 50, 0}
	ovs := []int{0, 2, 3}
	limits := []int{0, 5, 12, 13, 64, 1400}
	nns := []int{0, 1, 9, 10, 100}
	s := c10seq{Mult: []int{0, 1, 3, 3, 4}[rng.Intn(5)]}
	uid := 0
	nn := nns[rng.Intn(len(nns))]
	for i := 0; i < nops; i++ {
		r := rng.Intn(100)
		switch {
		case i == 0 && r < 12:
			s.Ops = append(s.Ops, c10op{Op: "prune", N: []int{0, 1, 5}[rng.Intn(3)]})
		case r < 45:
			uid++
			k := rng.Intn(3)
			op := c10op{Op: "queue", Kind: kindNames[k], UID: uid, Len: lens[rng.Intn(len(lens))]}
			if k == kNamed {
				op.Name = names[rng.Intn(len(names))]
			}
			if k == kPlain {
				op.Group = rng.Intn(3)
			}
			s.Ops = append(s.Ops, op)
		case r < 80:
			s.Ops = append(s.Ops, c10op{Op: "get", Overhead: ovs[rng.Intn(len(ovs))], Limit: limits[rng.Intn(len(limits))], NumNodes: nn})
		case r < 86:
			nn = nns[rng.Intn(len(nns))]
			s.Ops = append(s.Ops, c10op{Op: "nodes", NumNodes: nn})
		case r < 92:
			s.Ops = append(s.Ops, c10op{Op: "prune", N: []int{0, 1, 5}[rng.Intn(3)]})
		case r < 96:
			s.Ops = append(s.Ops, c10op{Op: "reset"})
			if rng.Intn(2) == 0 {
				s.Ops = append(s.Ops, c10op{Op: "prune", N: rng.Intn(2)})
			}
		default:
			s.Ops = append(s.Ops, c10op{Op: "numqueued"})
		}
	}
	return s
}

// scripted sequences that fill the required cells deterministically
func scriptedC10() map[string]c10seq {
	q := func(uid, l int) c10op { return c10op{Op: "queue", Kind: "unique", UID: uid, Len: l} }
	g := func(nn int) c10op { return c10op{Op: "get", Overhead: 2, Limit: 1400, NumNodes: nn} }
	return map[string]c10seq{
		"prune-on-fresh":    {Mult: 3, Ops: []c10op{{Op: "prune", N: 0}, q(1, 3), g(10), {Op: "numqueued"}}},
		"prune-after-reset": {Mult: 3, Ops: []c10op{q(1, 3), {Op: "reset"}, {Op: "prune", N: 1}, q(2, 3), g(10)}},
		"reset-on-fresh":    {Mult: 3, Ops: []c10op{{Op: "reset"}, {Op: "numqueued"}, g(10)}},
		"get-on-fresh":      {Mult: 3, Ops: []c10op{g(10), {Op: "numqueued"}}},
		"drain-then-queue-equal-length": {Mult: 4, Ops: []c10op{
			q(1, 3), q(2, 3), g(100), q(3, 3), g(100), {Op: "numqueued"}, g(100), g(100), g(100), g(100), g(100), g(100), g(100), {Op: "numqueued"}}},
		"drain-one-then-queue-equal-length": {Mult: 4, Ops: []c10op{
			q(1, 10), g(100), q(2, 10), g(100), {Op: "numqueued"}, g(100), g(100), g(100), g(100), g(100), g(100), g(100), g(100), {Op: "numqueued"}}},
	}
}

func c10cell(prev, cur string, st string) string { return prev + ">" + cur + "|" + st }

// runC10 executes a sequence against the real queue and the model.
// Returns ("", "") when everything agreed, else (key, description).
func runC10(run *Run, s c10seq) (key, what string) {
	nn := 0
	q := &memberlist.TransmitLimitedQueue{RetransmitMult: s.Mult, NumNodes: func() int { return nn }}
	model := &qModel{}
	all := map[int]*tb{}
	byPtr := map[unsafe.Pointer]*tb{}
	expectFin := map[int]int32{}
	prev := "start"
	heldOut := false
	for i, op := range s.Ops {
		st := "nonempty"
		if len(model.items) == 0 {
			st = "empty"
		} else {
			seenLen := map[[2]int]bool{}
			for _, it := range model.items {
				k := [2]int{it.transmits, len(it.b.msg)}
				if seenLen[k] {
					st = "ties"
				}
				seenLen[k] = true
			}
			if heldOut {
				st += "+afterdrain"
			}
		}
		run.Cell(c10cell(prev, op.Op, st))
		prev = op.Op
		var perr any
		var detail string
		func() {
			defer func() { perr = recover() }()
			switch op.Op {
			case "queue":
				b := &tb{uid: op.UID, name: op.Name, group: op.Group, msg: mkMsg(op.Len)}
				var bc memberlist.Broadcast
				switch op.Kind {
				case "named":
					b.kind = kNamed
					bc = namedTB{b}
				case "unique":
					b.kind = kUnique
					bc = uniqueTB{b}
				default:
					b.kind = kPlain
					bc = &plainTB{b}
				}
				all[b.uid] = b
				byPtr[msgID(b.msg)] = b
				for _, f := range model.queue(b) {
					expectFin[f.uid] = 1
				}
				q.QueueBroadcast(bc)
			case "nodes":
				nn = op.NumNodes
			case "get":
				nn = op.NumNodes
				wasLen := len(model.items)
				exp, fin := model.get(op.Overhead, op.Limit, s.Mult, nn)
				for _, f := range fin {
					expectFin[f.uid] = 1
				}
				if wasLen > 0 && len(exp) == wasLen {
					heldOut = true
				}
				got := q.GetBroadcasts(op.Overhead, op.Limit)
				total := 0
				var gotIDs, expIDs []int
				for _, m := range got {
					total += len(m) + op.Overhead
					if b, ok := byPtr[msgID(m)]; ok {
						gotIDs = append(gotIDs, b.uid)
					} else {
						gotIDs = append(gotIDs, -1)
					}
				}
				for _, b := range exp {
					expIDs = append(expIDs, b.uid)
				}
				if len(got) > 0 && total > op.Limit {
					detail = fmt.Sprintf("budget: returned %d bytes incl. overhead > limit %d", total, op.Limit)
				} else if fmt.Sprint(gotIDs) != fmt.Sprint(expIDs) {
					detail = fmt.Sprintf("hand-out differs: got uids %v, model %v", gotIDs, expIDs)
				}
			case "prune":
				before := map[int]int32{}
				for uid, b := range all {
					before[uid] = b.fin.Load()
				}
				q.Prune(op.N)
				want := len(model.items) - op.N
				if want < 0 {
					want = 0
				}
				victims := 0
				for _, it := range append([]*qItem(nil), model.items...) {
					if it.b.fin.Load() == before[it.b.uid]+1 {
						victims++
						expectFin[it.b.uid] = 1
						model.remove(it)
					}
				}
				if victims != want {
					detail = fmt.Sprintf("prune(%d): %d queued items were finished, expected %d", op.N, victims, want)
				}
			case "reset":
				q.Reset()
				for _, it := range model.items {
					expectFin[it.b.uid] = 1
				}
				model.items = nil
				heldOut = false
			case "numqueued":
			}
		}()
		if perr != nil {
			return "C10/panic/" + op.Op, fmt.Sprintf("op %d %+v panicked: %v", i, op, perr)
		}
		if detail != "" {
			return "C10/mismatch/" + op.Op, fmt.Sprintf("op %d %+v: %s", i, op, detail)
		}
		// global invariants after every operation
		var nq int
		func() {
			defer func() { perr = recover() }()
			nq = q.NumQueued()
		}()
		if perr != nil {
			return "C10/panic/numqueued", fmt.Sprintf("NumQueued after op %d %+v panicked: %v", i, op, perr)
		}
		if nq != len(model.items) {
			return "C10/lost-or-extra/" + op.Op, fmt.Sprintf("after op %d %+v: NumQueued()=%d, model holds %d (silent loss or phantom entry)", i, op, nq, len(model.items))
		}
		uids := make([]int, 0, len(all))
		for uid := range all {
			uids = append(uids, uid)
		}
		sort.Ints(uids)
		for _, uid := range uids {
			if got, want := all[uid].fin.Load(), expectFin[uid]; got != want {
				return "C10/finished-count/" + op.Op, fmt.Sprintf("after op %d %+v: broadcast uid %d Finished() ran %d times, expected %d", i, op, uid, got, want)
			}
		}
		names := map[string]int{}
		for _, it := range model.items {
			if it.b.kind == kNamed && it.b.name != "" {
				names[it.b.name]++
				if names[it.b.name] > 1 {
					return "C10/model-bug", "model holds two items for one name"
				}
			}
		}
	}
	return "", ""
}

func TestC10(t *testing.T) {
	run := NewRun(t, "C10", "exploration",
		"PRNG operation sequences (queue named/unique/plain, get, prune, reset, numqueued, changing NumNodes) over tiny domains with many length ties, plus scripted corner sequences, executed in lock-step against a reference queue model; after every op: hand-out order and byte budget, NumQueued, exactly-once Finished per uid. A cell is (previous op > op | queue shape); distinct_nontrivial counts distinct cells. Conventions adopted from the code: empty name = no subject; zero free bytes ends a retrieval; Prune victims are adopted as observed.")
	defer run.Finish()
	run.Assume("reference model written from the property statement and package docs", "broadcast Message() is immutable")
	for name, s := range scriptedC10() {
		id := "scripted/" + name
		if !run.Want(id) || !run.Mine(0) {
			continue
		}
		run.Journal(id, "")
		run.Eval(1)
		run.Cell("scripted|" + name)
		if key, what := runC10(run, s); key != "" {
			run.Violation(id, key, what, s)
		}
	}
	if run.Mine(0) || run.Replaying() {
		for name := range scriptedC10() {
			run.Require("scripted|" + name)
		}
	}
	n := run.Pick(20000, 16000000)
	for i := 0; i < n; i++ {
		if !run.Mine(i) {
			continue
		}
		id := fmt.Sprintf("rand/%d", i)
		if !run.Want(id) {
			continue
		}
		rng := run.RNG(id)
		s := genC10(rng, 10+rng.Intn(70))
		if i%1000 == 0 {
			run.Journal(id, "")
		}
		run.Eval(1)
		if key, what := runC10(run, s); key != "" {
			run.Violation(id, key, what, s)
		}
		if i == 0 {
			run.Sample(s)
		}
	}
	if run.Thorough() && !run.Replaying() {
		c10Concurrent(t, run)
	}
	c10ConcurrentNamed(run)
	c10Large(run)
	c10Mutable(run)
	run.Complete()
	if run.Violations() > 0 {
		t.Errorf("%d violation(s)", run.Violations())
	}
}

// c10Concurrent: producers/consumers on one queue; conservation + per-uid
// linearizability (porcupine) of the queue/finish history.
func c10Concurrent(t *testing.T, run *Run) {
	type cin struct {
		Op  string
		UID int
	}
	rounds := 40
	for round := 0; round < rounds; round++ {
		if !run.Mine(round) {
			continue
		}
		id := fmt.Sprintf("conc/%d", round)
		run.Journal(id, "")
		nn := 10
		q := &memberlist.TransmitLimitedQueue{RetransmitMult: 2, NumNodes: func() int { return nn }}
		var mu sync.Mutex
		var ops []porcupine.Operation
		var clock atomic.Int64
		var uidGen atomic.Int64
		var all sync.Map
		handed := map[int]int{}
		var wg sync.WaitGroup
		for p := 0; p < 8; p++ {
			wg.Add(1)
			go func(p int) {
				defer wg.Done()
				rng := rand.New(rand.NewSource(run.Seed()*1000 + int64(round*10+p)))
				for i := 0; i < 300; i++ {
					if p < 4 {
						uid := int(uidGen.Add(1))
						b := &tb{uid: uid, kind: kUnique, msg: mkMsg(1 + rng.Intn(4))}
						b.msg[0] = byte(uid)
						all.Store(uid, b)
						c := clock.Add(1)
						q.QueueBroadcast(uniqueTB{b})
						r := clock.Add(1)
						mu.Lock()
						ops = append(ops, porcupine.Operation{ClientId: p, Input: cin{"queue", uid}, Call: c, Output: 0, Return: r})
						mu.Unlock()
					} else {
						c := clock.Add(1)
						got := q.GetBroadcasts(1, 8+rng.Intn(24))
						r := clock.Add(1)
						mu.Lock()
						for _, m := range got {
							var hit *tb
							all.Range(func(k, v any) bool {
								if msgID(v.(*tb).msg) == msgID(m) {
									hit = v.(*tb)
									return false
								}
								return true
							})
							if hit != nil {
								handed[hit.uid]++
								ops = append(ops, porcupine.Operation{ClientId: p, Input: cin{"handout", hit.uid}, Call: c, Output: 0, Return: r})
							}
						}
						mu.Unlock()
					}
				}
			}(p)
		}
		wg.Wait()
		// drain
		for q.NumQueued() > 0 {
			c := clock.Add(1)
			got := q.GetBroadcasts(0, 1<<20)
			r := clock.Add(1)
			for _, m := range got {
				all.Range(func(k, v any) bool {
					if msgID(v.(*tb).msg) == msgID(m) {
						handed[v.(*tb).uid]++
						ops = append(ops, porcupine.Operation{ClientId: 9, Input: cin{"handout", v.(*tb).uid}, Call: c, Output: 0, Return: r})
						return false
					}
					return true
				})
			}
		}
		limit := retransmitLimitModel(2, nn)
		bad := ""
		total := 0
		all.Range(func(k, v any) bool {
			b := v.(*tb)
			total++
			if b.fin.Load() != 1 {
				bad = fmt.Sprintf("uid %d finished %d times after drain", b.uid, b.fin.Load())
			}
			if handed[b.uid] != limit {
				bad = fmt.Sprintf("uid %d handed out %d times, retransmit limit %d", b.uid, handed[b.uid], limit)
			}
			return true
		})
		run.Eval(1)
		run.Count("concurrent_broadcasts", int64(total))
		run.Cell("concurrent|8-goroutines")
		if bad != "" {
			run.Violation(id, "C10/concurrent/conservation", bad, map[string]any{"round": round})
			continue
		}
		// per-uid history: a hand-out must not precede the start of its queue op
		model := porcupine.Model{
			Partition: func(h []porcupine.Operation) [][]porcupine.Operation {
				m := map[int][]porcupine.Operation{}
				for _, o := range h {
					m[o.Input.(cin).UID] = append(m[o.Input.(cin).UID], o)
				}
				var out [][]porcupine.Operation
				for _, v := range m {
					out = append(out, v)
				}
				return out
			},
			Init: func() any { return -1 },
			Step: func(st, in, out any) (bool, any) {
				s := st.(int)
				switch in.(cin).Op {
				case "queue":
					return s == -1, 0
				default:
					return s >= 0 && s < limit, s + 1
				}
			},
		}
		res := porcupine.CheckOperationsTimeout(model, ops, 60*time.Second)
		run.Count("porcupine_ops", int64(len(ops)))
		switch res {
		case porcupine.Illegal:
			run.Violation(id, "C10/concurrent/linearizability", "queue/hand-out history not linearizable against the per-broadcast counter model", map[string]any{"round": round})
		case porcupine.Unknown:
			run.Note("porcupine timeout on round %d (inconclusive for that round)", round)
			run.Count("porcupine_timeouts", 1)
		}
	}
}

// c10ConcurrentNamed: several goroutines queue broadcasts about the same few subjects at once, with completion
// callbacks that take a while. Whatever the interleaving, once the producers are done the queue holds exactly
// one broadcast per subject (the others were superseded), every superseded one was completed exactly once, the
// survivors not at all, and draining hands out survivors only.
func c10ConcurrentNamed(run *Run) {
	rounds := run.Pick(60, 4000)
	for round := 0; round < rounds; round++ {
		if !run.Mine(round) {
			continue
		}
		id := fmt.Sprintf("conc-named/%d", round)
		if !run.Want(id) {
			continue
		}
		run.Journal(id, "")
		q := &memberlist.TransmitLimitedQueue{RetransmitMult: 3, NumNodes: func() int { return 10 }}
		names := []string{"a", "b", "c"}[:1+round%3]
		var all sync.Map
		var uidGen atomic.Int64
		var wg sync.WaitGroup
		producers := 2 + round%5
		for p := 0; p < producers; p++ {
			wg.Add(1)
			go func(p int) {
				defer wg.Done()
				rng := rand.New(rand.NewSource(run.Seed()*7919 + int64(round*16+p)))
				for i := 0; i < 40; i++ {
					uid := int(uidGen.Add(1))
					b := &tb{uid: uid, kind: kNamed, name: names[rng.Intn(len(names))], msg: mkMsg(1 + rng.Intn(6)), slow: rng.Intn(2) == 0}
					all.Store(uid, b)
					q.QueueBroadcast(namedTB{b})
				}
			}(p)
		}
		wg.Wait()
		run.Eval(1)
		run.Cell("concurrent-named", fmt.Sprintf("subjects=%d", len(names)), fmt.Sprintf("producers=%d", producers))
		total, finished, twice := 0, 0, 0
		all.Range(func(k, v any) bool {
			total++
			switch f := v.(*tb).fin.Load(); {
			case f == 1:
				finished++
			case f > 1:
				twice++
			}
			return true
		})
		nq := q.NumQueued()
		if nq != len(names) {
			run.Violation(id, "C10/concurrent/one-per-subject", fmt.Sprintf("%d goroutines queued %d broadcasts about %d subjects (completion callbacks that take a while): the queue now holds %d broadcasts, expected one per subject; %d were completed", producers, total, len(names), nq, finished), map[string]any{"round": round})
			continue
		}
		if twice > 0 || finished != total-len(names) {
			run.Violation(id, "C10/concurrent/finished-count", fmt.Sprintf("%d broadcasts queued about %d subjects, %d remain queued: %d were completed once (expected %d), %d more than once", total, len(names), nq, finished, total-len(names), twice), map[string]any{"round": round})
			continue
		}
		// drain: only never-completed survivors may come out, one subject each
		seen := map[string]bool{}
		bad := ""
		for guard := 0; q.NumQueued() > 0 && guard < 100; guard++ {
			for _, m := range q.GetBroadcasts(0, 1<<20) {
				all.Range(func(k, v any) bool {
					b := v.(*tb)
					if msgID(b.msg) == msgID(m) {
						seen[b.name] = true
						if b.fin.Load() > 1 {
							bad = fmt.Sprintf("uid %d (%s) completed %d times", b.uid, b.name, b.fin.Load())
						}
						return false
					}
					return true
				})
			}
		}
		if bad != "" || len(seen) != len(names) {
			run.Violation(id, "C10/concurrent/drain", fmt.Sprintf("draining handed out broadcasts about %d subjects, expected %d; %s", len(seen), len(names), bad), map[string]any{"round": round})
		}
	}
	if !run.Replaying() {
		run.Require("concurrent-named|subjects=1|producers=2")
	}
}

// c10Large: queues of hundreds of broadcasts (the tree behind the queue has several levels then) pruned to
// PRNG sizes: Prune keeps the n broadcasts that have been transmitted least (newest among equals), completes every
// other one exactly once, and later retrievals hand out exactly the kept ones.
func c10Large(run *Run) {
	rounds := run.Pick(40, 3000)
	for round := 0; round < rounds; round++ {
		if !run.Mine(round) {
			continue
		}
		id := fmt.Sprintf("large/%d", round)
		if !run.Want(id) {
			continue
		}
		run.Journal(id, "")
		rng := rand.New(rand.NewSource(run.Seed()*4099 + int64(round)))
		q := &memberlist.TransmitLimitedQueue{RetransmitMult: 4, NumNodes: func() int { return 100 }}
		total := 65 + rng.Intn(900)
		var all []*tb
		for i := 0; i < total; i++ {
			b := &tb{uid: i + 1, kind: kUnique, msg: mkMsg(1 + rng.Intn(40))}
			all = append(all, b)
			q.QueueBroadcast(uniqueTB{b})
			if rng.Intn(40) == 0 {
				q.GetBroadcasts(1, 30+rng.Intn(400)) // some get ahead in transmissions
			}
		}
		before := q.NumQueued()
		keep := rng.Intn(before + 1)
		var perr any
		func() {
			defer func() { perr = recover() }()
			q.Prune(keep)
		}()
		run.Eval(1)
		run.Cell("large", fmt.Sprintf("queued>=%d", 64*(before/64)), fmt.Sprintf("keep=%d%%", 25*(4*keep/(before+1))))
		if perr != nil {
			run.Violation(id, "C10/panic/prune-large", fmt.Sprintf("Prune(%d) on a queue of %d broadcasts panicked: %v", keep, before, perr), map[string]any{"round": round})
			continue
		}
		fin, twice := 0, 0
		for _, b := range all {
			switch f := b.fin.Load(); {
			case f == 1:
				fin++
			case f > 1:
				twice++
			}
		}
		completedBefore := total - before // (completed by reaching the retransmit limit during filling)
		if q.NumQueued() != keep || twice > 0 || fin != completedBefore+(before-keep) {
			run.Violation(id, "C10/prune-large", fmt.Sprintf("Prune(%d) on a queue of %d: %d remain queued, %d completed once (expected %d), %d more than once", keep, before, q.NumQueued(), fin, completedBefore+(before-keep), twice), map[string]any{"round": round})
			continue
		}
		// drain: exactly the never-completed ones come out, each the remaining number of times
		handed := map[unsafe.Pointer]int{}
		for guard := 0; q.NumQueued() > 0 && guard < 200; guard++ {
			for _, m := range q.GetBroadcasts(0, 1<<20) {
				handed[msgID(m)]++
			}
		}
		bad := ""
		for _, b := range all {
			if b.fin.Load() != 1 {
				bad = fmt.Sprintf("uid %d completed %d times after the drain", b.uid, b.fin.Load())
			}
		}
		if bad != "" || q.NumQueued() != 0 {
			run.Violation(id, "C10/prune-large/drain", fmt.Sprintf("after Prune(%d) of %d and a full drain: %s; %d still queued", keep, before, bad, q.NumQueued()), map[string]any{"round": round})
		}
	}
}

// growTB: a broadcast whose Message() is rendered on demand and may be longer (or shorter) than it was when the
// broadcast was queued - an application that coalesces updates in place or encodes lazily.
type growTB struct {
	cur atomic.Pointer[[]byte]
	fin atomic.Int32
}

func (g *growTB) Message() []byte                       { return *g.cur.Load() }
func (g *growTB) Finished()                             { g.fin.Add(1) }
func (g *growTB) Invalidates(memberlist.Broadcast) bool { return false }
func (g *growTB) UniqueBroadcast()                      {}

// c10Mutable: whatever the broadcasts return from Message() at retrieval time, a retrieval fits the limit it was
// given (sizes as returned plus the stated overhead), never panics, and returns only current messages of queued
// broadcasts.
func c10Mutable(run *Run) {
	rounds := run.Pick(200, 20000)
	for round := 0; round < rounds; round++ {
		if !run.Mine(round) {
			continue
		}
		id := fmt.Sprintf("mutable/%d", round)
		if !run.Want(id) {
			continue
		}
		rng := rand.New(rand.NewSource(run.Seed()*6151 + int64(round)))
		q := &memberlist.TransmitLimitedQueue{RetransmitMult: 3, NumNodes: func() int { return 30 }}
		var bs []*growTB
		for i := 0; i < 3+rng.Intn(30); i++ {
			g := &growTB{}
			m := make([]byte, 1+rng.Intn(120))
			g.cur.Store(&m)
			bs = append(bs, g)
			q.QueueBroadcast(g)
		}
		for step := 0; step < 12; step++ {
			for _, g := range bs {
				if rng.Intn(3) == 0 {
					m := make([]byte, 1+rng.Intn(200))
					g.cur.Store(&m)
				}
			}
			overhead, limit := rng.Intn(4), 20+rng.Intn(300)
			var got [][]byte
			var perr any
			func() {
				defer func() { perr = recover() }()
				got = q.GetBroadcasts(overhead, limit)
			}()
			run.Eval(1)
			if perr != nil {
				run.Violation(id, "C10/panic/mutable-length", fmt.Sprintf("GetBroadcasts(%d, %d) panicked: %v", overhead, limit, perr), map[string]any{"round": round})
				break
			}
			sum := 0
			for _, m := range got {
				sum += overhead + len(m)
			}
			if sum > limit {
				run.Violation(id, "C10/over-limit/mutable-length", fmt.Sprintf("a retrieval of %d messages needs %d bytes including the stated overhead of %d each, the limit given was %d (the broadcasts' messages had changed length since they were queued)", len(got), sum, overhead, limit), map[string]any{"round": round})
				break
			}
		}
		run.Cell("mutable-length")
	}
}
