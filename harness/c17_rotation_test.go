package harness

import (
	"fmt"
	"strings"
	"testing"
	"time"

	"github.com/hashicorp/memberlist"
)

// probeAllPairs sends a tagged best-effort and a tagged reliable message for
// every ordered pair and reports the pairs whose message did not arrive.
func probeAllPairs(c *Cluster, tag string) (failed []string, sent int) {
	type exp struct {
		to  *SimNode
		msg string
		key string
	}
	var exps []exp
	for _, a := range c.Nodes {
		if a.Stopped {
			continue
		}
		for _, b := range c.Nodes {
			if a == b || b.Stopped {
				continue
			}
			var target *memberlist.Node
			for _, mb := range a.ML().Members() {
				if mb.Name == b.Name {
					target = mb
				}
			}
			if target == nil {
				failed = append(failed, fmt.Sprintf("%s does not list %s", a.Name, b.Name))
				continue
			}
			m1 := fmt.Sprintf("probe|%s|pkt|%s>%s", tag, a.Name, b.Name)
			m2 := fmt.Sprintf("probe|%s|tcp|%s>%s", tag, a.Name, b.Name)
			if h := tag + a.Name + b.Name; (int(h[len(h)-1])+int(h[len(h)-3])+len(exps))%2 == 0 {
				m2 += "|" + strings.Repeat("large-reliable-payload-", 2000) // ~46 KB on the stream
			}
			_ = a.ML().SendBestEffort(target, []byte(m1))
			_ = a.ML().SendReliable(target, []byte(m2))
			exps = append(exps, exp{b, m1, a.Name + ">" + b.Name + "/packet"}, exp{b, m2, a.Name + ">" + b.Name + "/stream"})
			sent += 2
		}
	}
	Settle(200 * time.Millisecond)
	for _, e := range exps {
		got := false
		for _, m := range e.to.Del.Received() {
			if string(m) == e.msg {
				got = true
			}
		}
		if !got {
			failed = append(failed, e.key)
		}
	}
	return
}

func c17Rotation(t *testing.T, run *Run) {
	kOld, kNew := c17keys["k16a"], c17keys["k32"]
	cases := run.Pick(12, 3000)
	for ci := 0; ci < cases; ci++ {
		if !run.Mine(ci) {
			continue
		}
		id := fmt.Sprintf("rotation/%d", ci)
		if !run.Want(id) {
			continue
		}
		run.Journal(id, "")
		rng := run.RNG(id)
		n := 3 + rng.Intn(3)
		pv := []uint8{1, 2, 5}[rng.Intn(3)]
		label := []string{"", "rot"}[rng.Intn(2)]
		negative := ci%3 == 2
		withSecret := ci%2 == 1
		quiet := ci%4 == 1 && !negative
		var steps []string
		var failure string
		var negSeen bool
		err := Bubble(t, func() {
			c := NewCluster(run.Seed()*1000 + int64(ci))
			defer c.Drain()
			// the handles the application keeps (it built the keyrings itself and rotates through them)
			var rings []*memberlist.Keyring
			for i := 0; i < n; i++ {
				ring, _ := memberlist.NewKeyring(nil, kOld)
				rings = append(rings, ring)
				both := withSecret && i%2 == 0
				nd, err := c.Add(NodeSpec{Name: fmt.Sprintf("n%d", i), Mutate: func(cf *memberlist.Config) {
					cf.Keyring = ring
					if quiet {
						// nothing but the traffic this check sends: no gossip, probes or state exchanges in between
						cf.ProbeInterval = noProbe
						cf.GossipInterval = 0
					}
					if both {
						cf.SecretKey = kOld // keyring and secret key both given: the key is (already) the ring's primary
					}
					cf.ProtocolVersion = pv
					cf.Label = label
					cf.PushPullInterval = 0
				}})
				if err != nil {
					failure = "create: " + err.Error()
					return
				}
				if i > 0 {
					if _, err := nd.ML().Join([]string{c.Nodes[0].EP.Addr}); err != nil {
						failure = "join: " + err.Error()
						return
					}
				}
			}
			if err := c.FullMesh(); err != nil {
				failure = err.Error()
				return
			}
			Settle(3 * time.Second)
			if f, _ := probeAllPairs(c, "base"); len(f) > 0 {
				failure = fmt.Sprintf("baseline probe failed before any rotation step: %v", f)
				return
			}
			phases := []struct {
				name string
				do   func(k *memberlist.Keyring) error
			}{
				{"install-new", func(k *memberlist.Keyring) error { return k.AddKey(kNew) }},
				{"use-new", func(k *memberlist.Keyring) error { return k.UseKey(kNew) }},
				{"remove-old", func(k *memberlist.Keyring) error { return k.RemoveKey(kOld) }},
			}
			if negative {
				// out of order: one node starts using the new key before another installed it
				order := rng.Perm(n)
				a, b := c.Nodes[order[0]], c.Nodes[order[1]]
				_ = rings[order[0]].AddKey(kNew)
				_ = rings[order[0]].UseKey(kNew)
				f, _ := probeAllPairs(c, "neg")
				for _, x := range f {
					if x == a.Name+">"+b.Name+"/packet" || x == a.Name+">"+b.Name+"/stream" {
						negSeen = true
					}
				}
				steps = append(steps, fmt.Sprintf("negative: %s uses new key before %s installed it -> failed pairs %v", a.Name, b.Name, f))
				return
			}
			for pi, ph := range phases {
				for si, idx := range rng.Perm(n) {
					nd := c.Nodes[idx]
					if err := ph.do(rings[idx]); err != nil {
						failure = fmt.Sprintf("%s on %s: %v", ph.name, nd.Name, err)
						return
					}
					step := fmt.Sprintf("%s@%s", ph.name, nd.Name)
					steps = append(steps, step)
					if quiet && rng.Intn(3) > 0 && !(pi == len(phases)-1 && si == n-1) {
						// a quiet cluster: most steps are not followed by any traffic at all (the last one always is)
						run.Cell("rotation", "quiet-step-without-traffic")
						continue
					}
					f, sent := probeAllPairs(c, fmt.Sprintf("%d.%d", pi, si))
					run.Count("rotation_probes", int64(sent))
					run.Cell("rotation", ph.name, fmt.Sprintf("step%d/%d", si+1, n), fmt.Sprintf("pv%d", pv), "label="+label, fmt.Sprintf("secretkey-too=%v", withSecret))
					if len(f) > 0 {
						failure = fmt.Sprintf("after step %s (steps so far %v) these pairs could not exchange a message: %v", step, steps, f)
						return
					}
				}
			}
			c.CheckQuiescent()
			for _, p := range c.Problems() {
				run.Note("rotation case %d monitor: %s %s", ci, p.Key, p.What)
			}
		})
		run.Eval(1)
		if err != nil {
			run.Violation(id, "C17/rotation/bubble", err.Error(), map[string]any{"steps": steps})
			continue
		}
		if failure != "" {
			run.Violation(id, "C17/rotation/pair-failed", failure, map[string]any{"n": n, "pv": pv, "label": label, "steps": steps, "negative": negative})
			continue
		}
		if negative {
			run.Cell("rotation|negative-control")
			if !negSeen {
				run.Violation(id, "C17/rotation/probe-blind", "negative control: a node sealing under a key its peer lacks still got its message through (probe is blind or receivers accept anything)", map[string]any{"steps": steps})
			}
			continue
		}
		if ci == 0 {
			run.Sample(map[string]any{"rotation_steps": steps, "n": n, "pv": pv})
		}
	}
	if !run.Replaying() {
		run.Require("rotation|negative-control")
	}
}
