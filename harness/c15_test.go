package harness

// C15 — outbound confidentiality: nothing leaves unencrypted when encryption is enforced.

import (
	"bytes"
	"encoding/binary"
	"fmt"
	"math/rand"
	"sync"
	"testing"
	"time"

	"github.com/hashicorp/memberlist"
)

type c15Cfg struct {
	PV       int    `json:"protocol_version"` // 1 => encryption v0
	Label    string `json:"label"`
	Compress bool   `json:"compress"`
	// the keyring is empty when the nodes are created; the key is installed and made primary at run
	// time, before the cluster forms
	LateKey bool `json:"key_installed_at_runtime,omitempty"`
}

type c15Tap struct {
	mu        sync.Mutex
	nodes     map[string]*SimNode // by address
	label     string
	canaries  [][]byte
	bad       []string
	cells     map[string]int64
	pkts      int64
	frames    int64
	labelSeen map[int]bool // connID: dialer wrote its label header
}

func (t *c15Tap) note(f string, a ...any) {
	if len(t.bad) < 8 {
		t.bad = append(t.bad, fmt.Sprintf(f, a...))
	}
}

func (t *c15Tap) scan(where string, raw []byte) {
	for _, c := range t.canaries {
		if bytes.Contains(raw, c) {
			t.note("%s: a canary (%q...) appears in clear in %d raw bytes handed to the transport", where, c[:6], len(raw))
		}
	}
}

func (t *c15Tap) classify(path string, plain []byte, depth int) {
	if len(plain) == 0 || depth > 6 {
		return
	}
	switch int(plain[0]) {
	case THasCrc:
		if len(plain) > 5 {
			t.classify(path, plain[5:], depth+1)
		}
	case TCompress:
		t.cells[path+"|compress"]++
		if d, err := LZWDecompress(plain[1:], 64<<20); err == nil {
			t.classify(path, d, depth+1)
		}
	case TCompound:
		t.cells[path+"|compound"]++
		if parts, _, err := SplitCompound(plain[1:]); err == nil {
			for _, p := range parts {
				t.classify(path, p, depth+1)
			}
		}
	default:
		t.cells[path+"|"+TypeName(int(plain[0]))]++
	}
}

func (t *c15Tap) onPacket(ev *PacketEvent) {
	if ev.Closed {
		return
	}
	t.mu.Lock()
	defer t.mu.Unlock()
	nd := t.nodes[ev.From]
	if nd == nil {
		return // a fake peer of the harness
	}
	t.pkts++
	t.scan("packet "+ev.From+"->"+ev.To, ev.Buf)
	rest, label, err := StripLabel(ev.Buf)
	if err != nil || label != t.label {
		t.note("packet %s->%s: label header %q (err %v), node's label is %q", ev.From, ev.To, label, err, t.label)
		return
	}
	prim := nd.Conf.Keyring.GetPrimaryKey()
	res, err := Open([][]byte{prim}, rest, []byte(t.label))
	if err != nil {
		how := "not an AES-GCM ciphertext under the sender's current primary key with the label as associated data"
		if len(rest) > 0 && rest[0] <= 13 && rest[0] != 0 && rest[0] != 1 {
			how = fmt.Sprintf("cleartext message of type %s", TypeName(int(rest[0])))
		} else if r2, e2 := Open(nd.Conf.Keyring.GetKeys(), rest, []byte(t.label)); e2 == nil {
			how = fmt.Sprintf("sealed under installed key #%d, which is not the primary", r2.KeyIndex)
		} else if _, e3 := Open(nd.Conf.Keyring.GetKeys(), rest, nil); e3 == nil {
			how = "sealed without the label as associated data"
		}
		t.note("packet %s->%s (%d bytes): %s", ev.From, ev.To, len(ev.Buf), how)
		return
	}
	t.classify("packet", res.Plain, 0)
}

func (t *c15Tap) onStream(ev *StreamEvent) {
	t.mu.Lock()
	defer t.mu.Unlock()
	nd := t.nodes[ev.From]
	if nd == nil {
		return
	}
	where := fmt.Sprintf("stream#%d %s->%s", ev.ConnID, ev.From, ev.To)
	t.scan(where, ev.Buf)
	buf := ev.Buf
	path := "stream-responder"
	if ev.Dialer {
		path = "stream-initiator"
		if t.label != "" && !t.labelSeen[ev.ConnID] {
			h := LabelHeader(t.label)
			if !bytes.HasPrefix(buf, h) {
				t.note("%s: first write of the dialing side is not the label header", where)
				return
			}
			t.labelSeen[ev.ConnID] = true
			buf = buf[len(h):]
			if len(buf) == 0 {
				return
			}
		}
	}
	for len(buf) > 0 {
		if buf[0] != TEncrypt || len(buf) < 5 {
			t.note("%s: a frame that is not an encrypt frame was written (first byte %d = %s, %d bytes)", where, buf[0], TypeName(int(buf[0])), len(buf))
			return
		}
		n := int(binary.BigEndian.Uint32(buf[1:5]))
		if len(buf) < 5+n {
			t.note("%s: encrypt frame announces %d bytes, only %d written", where, n, len(buf)-5)
			return
		}
		aad := append(append([]byte(nil), buf[:5]...), t.label...)
		prim := nd.Conf.Keyring.GetPrimaryKey()
		res, err := Open([][]byte{prim}, buf[5:5+n], aad)
		if err != nil {
			how := "does not open under the sender's current primary key with type|length|label as associated data"
			if r2, e2 := Open(nd.Conf.Keyring.GetKeys(), buf[5:5+n], aad); e2 == nil {
				how = fmt.Sprintf("sealed under installed key #%d, which is not the primary", r2.KeyIndex)
			}
			t.note("%s: encrypt frame %s", where, how)
			return
		}
		t.frames++
		t.classify(path, res.Plain, 0)
		buf = buf[5+n:]
	}
}

func canary(tag string, i int) []byte {
	return []byte(fmt.Sprintf("CANARY-%s-%02d-%08x", tag, i, 0x5eed1e55+i*7919))
}

func runC15(run *Run, seed int64, cfg c15Cfg) (out []*c01Result, cells map[string]int64) {
	fail := func(key, f string, a ...any) {
		if len(out) < 8 {
			out = append(out, &c01Result{"C15/" + key, fmt.Sprintf(f, a...)})
		}
	}
	c := NewCluster(seed)
	defer c.Drain()
	c.Net.KeepTrace = false
	k1 := bytes.Repeat([]byte{0x11}, 16)
	k2 := bytes.Repeat([]byte{0x22}, 32)
	tap := &c15Tap{nodes: map[string]*SimNode{}, label: cfg.Label, cells: map[string]int64{}, labelSeen: map[int]bool{}}
	c.Net.OnPacket = append(c.Net.OnPacket, tap.onPacket)
	c.Net.OnStream = append(c.Net.OnStream, tap.onStream)
	var nodes []*SimNode
	for i := 0; i < 4; i++ {
		name := fmt.Sprintf("node-%s", canary("name", i))
		meta := canary("meta", i)
		tap.canaries = append(tap.canaries, []byte(name), meta)
		ring, _ := memberlist.NewKeyring(nil, k1)
		if cfg.LateKey {
			ring, _ = memberlist.NewKeyring(nil, nil)
		}
		nd, err := c.Add(NodeSpec{Name: name, Meta: meta, WithPing: true, Mutate: func(cf *memberlist.Config) {
			cf.Keyring = ring
			cf.ProtocolVersion = uint8(cfg.PV)
			cf.Label = cfg.Label
			cf.EnableCompression = cfg.Compress
			cf.PushPullInterval = 3 * time.Second
			cf.IndirectChecks = 2
			cf.GossipToTheDeadTime = 20 * time.Second
			if i == 1 {
				// rollout stage: this node still accepts cleartext from peers that have no key yet,
				// but everything it sends must be encrypted all the same
				cf.GossipVerifyIncoming = false
			}
		}})
		if err != nil {
			fail("harness/create", "%v", err)
			return
		}
		nd.Del.State = canary("state", i)
		nd.AckPayload = canary("ack", i)
		tap.canaries = append(tap.canaries, nd.Del.State, nd.AckPayload)
		if i == 2 {
			// one node's application state is large (and does not compress): its exchanges are far beyond 64 KiB on the wire
			blob := make([]byte, 150<<10)
			rand.New(rand.NewSource(seed + 77)).Read(blob)
			nd.Del.State = append(append([]byte(nil), nd.Del.State...), blob...)
		}
		tap.mu.Lock()
		tap.nodes[nd.EP.Addr] = nd
		tap.mu.Unlock()
		if cfg.LateKey {
			_ = ring.AddKey(k1)
			_ = ring.UseKey(k1)
		}
		nodes = append(nodes, nd)
		if i > 0 {
			if _, err := nd.ML().Join([]string{nodes[0].EP.Addr}); err != nil {
				// what the tap saw on the wire explains a failed join better than the error does
				tap.mu.Lock()
				for _, b := range tap.bad {
					fail("leak", "%s (cfg %+v)", b, cfg)
				}
				tap.mu.Unlock()
				fail("harness/join", "%v", err)
				return
			}
		}
	}
	A, B, C, D := nodes[0], nodes[1], nodes[2], nodes[3]
	Settle(5 * time.Second)
	find := func(from, to *SimNode) *memberlist.Node {
		for _, mb := range from.ML().Members() {
			if mb.Name == to.Name {
				return mb
			}
		}
		return nil
	}
	// user traffic on every path
	up := func(i int) []byte {
		p := canary("user", i)
		tap.mu.Lock()
		tap.canaries = append(tap.canaries, p)
		tap.mu.Unlock()
		return p
	}
	if nb := find(A, B); nb != nil {
		_ = A.ML().SendBestEffort(nb, up(1))
		_ = A.ML().SendReliable(nb, up(2))
		bigUser := make([]byte, 120<<10)
		rand.New(rand.NewSource(seed + 78)).Read(bigUser)
		_ = A.ML().SendReliable(nb, append(up(4), bigUser...))
		_ = A.ML().SendToAddress(memberlist.Address{Addr: B.EP.Addr, Name: B.Name}, up(3))
	}
	for i := 0; i < 6; i++ {
		A.Del.Queue(up(10 + i))
	}
	A.Del.SetMeta(canary("meta-upd", 0))
	tap.mu.Lock()
	tap.canaries = append(tap.canaries, canary("meta-upd", 0))
	tap.mu.Unlock()
	_ = A.ML().UpdateNode(2 * time.Second)
	Settle(4 * time.Second)
	// UDP between A and B black-holed, TCP open: indirect probes, relayed acks, TCP fallback ping + ack
	c.Net.BlockUDP(A.EP.Addr, B.EP.Addr, true)
	c.Net.BlockUDP(B.EP.Addr, A.EP.Addr, true)
	Settle(8 * time.Second)
	c.Net.BlockUDP(A.EP.Addr, B.EP.Addr, false)
	c.Net.BlockUDP(B.EP.Addr, A.EP.Addr, false)
	// an error reply: garbage and wrong-key streams from an outsider
	out1 := c.Net.NewEndpoint("outsider", "10.77.0.1", 7946)
	for _, payload := range [][]byte{
		append(LabelHeader(cfg.Label), []byte{TPushPull, 1, 2, 3}...),
		append(LabelHeader(cfg.Label), BuildStreamMsg(StreamCfg{Label: cfg.Label, Key: bytes.Repeat([]byte{9}, 16), EncVsn: 1}, Enc(TPing, &WPing{SeqNo: 1}), c.Net.rng)...),
	} {
		if conn, err := out1.DialAddressTimeout(memberlist.Address{Addr: A.EP.Addr}, time.Second); err == nil {
			_, _ = conn.Write(payload)
			Settle(50 * time.Millisecond)
			conn.Close()
		}
	}
	// cleartext requests to the node that still accepts them: its replies must be sealed nevertheless
	for _, plain := range [][]byte{
		BuildPushPull(false, []WPushNodeState{{Name: "outsider", Addr: []byte{10, 77, 0, 1}, Port: 7946, Incarnation: 1, State: SAlive, Vsn: DefaultVsn()}}, []byte("outsider-state")),
		Enc(TPing, &WPing{SeqNo: 77, Node: B.Name}),
	} {
		if conn, err := out1.DialAddressTimeout(memberlist.Address{Addr: B.EP.Addr}, time.Second); err == nil {
			_, _ = conn.Write(append(LabelHeader(cfg.Label), plain...))
			Settle(50 * time.Millisecond)
			conn.Close()
		}
	}
	c.Net.Inject(B.EP, out1.Addr, append(LabelHeader(cfg.Label), Enc(TPing, &WPing{SeqNo: 78, Node: B.Name, SourceAddr: []byte{10, 77, 0, 1}, SourcePort: 7946, SourceNode: "outsider"})...))
	Settle(time.Second)
	// crash D: failed probes, indirect probes with nacks, suspicions (also piggybacked on probes), death
	c.Crash(D)
	Settle(40 * time.Second)
	// key rotation while traffic flows
	for _, n := range []*SimNode{A, B, C} {
		_ = n.Conf.Keyring.AddKey(k2)
	}
	Settle(2 * time.Second)
	_ = A.Conf.Keyring.UseKey(k2)
	Settle(4 * time.Second)
	_ = B.Conf.Keyring.UseKey(k2)
	_ = C.Conf.Keyring.UseKey(k2)
	Settle(4 * time.Second)
	for _, n := range []*SimNode{A, B, C} {
		_ = n.Conf.Keyring.RemoveKey(k1)
	}
	if nb := find(B, A); nb != nil {
		_ = B.ML().SendBestEffort(nb, up(30))
		_ = B.ML().SendReliable(nb, up(31))
	}
	Settle(4 * time.Second)
	// graceful leave
	_ = C.ML().Leave(5 * time.Second)
	Settle(3 * time.Second)
	tap.mu.Lock()
	defer tap.mu.Unlock()
	for _, b := range tap.bad {
		fail("leak", "%s (cfg %+v)", b, cfg)
	}
	run.Count("packets_opened", tap.pkts)
	run.Count("stream_frames_opened", tap.frames)
	cells = tap.cells
	c.CheckQuiescent()
	for _, p := range c.Problems() {
		out = append(out, &c01Result{p.Key, p.What})
	}
	return
}

// runC15Skip: the deployment in which an outer layer strips the label header from inbound traffic
// (SkipInboundLabelCheck). The node still has a label and a key: whatever it writes back on an inbound
// stream - TCP-ping ack, push/pull reply, error reply - must be an encrypt frame sealed under the
// primary key with the label as associated data (the oracle-side parser opens it exactly that way).
func runC15Skip(run *Run, seed int64, pv int, compress bool) (out []*c01Result) {
	fail := func(key, f string, a ...any) {
		out = append(out, &c01Result{"C15/" + key, fmt.Sprintf(f, a...)})
	}
	key := bytes.Repeat([]byte{0x11}, 16)
	rig, err := NewRig(RigOpts{Seed: seed, Label: "conf", Key: key, PVer: uint8(pv), Compress: compress, Spec: NodeSpec{Name: "V", IP: "10.9.9.9", Mutate: func(cf *memberlist.Config) {
		cf.SkipInboundLabelCheck = true
		cf.ProbeInterval = noProbe
		cf.PushPullInterval = 0
		cf.GossipInterval = 0
	}}})
	if err != nil {
		fail("harness/create", "%v", err)
		return
	}
	defer rig.Close()
	rig.NoHeader = true
	x := rig.AddPeer("x", "10.9.1.1", 7946)
	rig.Introduce(x, 1)
	Settle(time.Millisecond)
	if rig.V.Record("x") == nil {
		fail("harness/skip-setup", "header-less sealed gossip was not accepted")
		return
	}
	exchange := func(what string, plain []byte, wantType int) {
		ce, err := x.Dial()
		if err != nil {
			fail("harness/dial", "%v", err)
			return
		}
		defer ce.Close()
		var frame []byte
		rig.C.Net.Rand(func(rng *rand.Rand) { frame = BuildStreamMsg(rig.SCfg, plain, rng) })
		if what == "cleartext-request" {
			frame = plain
		}
		_, _ = ce.Write(frame)
		Settle(50 * time.Millisecond)
		raw := drain(ce)
		run.Eval(1)
		run.Cell("skip-inbound-check", what, fmt.Sprintf("pv=%d", pv))
		if len(raw) == 0 {
			if what != "cleartext-request" {
				fail("harness/no-reply", "no reply to a genuine %s", what)
			}
			return
		}
		label, frames, perr := ParseStream(raw, rig.Keys, "conf")
		_ = label // (a responder does not repeat the label header on the connection)
		if perr != nil {
			fail("leak/skip", "reply to %s on an inbound stream (SkipInboundLabelCheck, label \"conf\"): %d bytes that do not parse as label header + encrypt frame sealed under the primary key with the label as associated data: %v (header label %q); first bytes %x", what, len(raw), perr, label, raw[:min(len(raw), 24)])
			return
		}
		for _, f := range frames {
			if !f.Sealed {
				fail("leak/skip", "reply to %s contains a frame that is not sealed (type %s)", what, TypeName(f.Type))
			}
		}
		if wantType >= 0 && (len(frames) == 0 || frames[0].Type != wantType) {
			fail("harness/reply-type", "reply to %s: %d frames, first type %v", what, len(frames), frames)
		}
	}
	exchange("stream-ping", Enc(TPing, &WPing{SeqNo: 4242, Node: "V"}), TAck)
	exchange("push-pull", BuildPushPull(false, []WPushNodeState{x.Self(1)}, []byte("st")), TPushPull)
	exchange("cleartext-request", Enc(TPing, &WPing{SeqNo: 4243, Node: "V"}), TErr)
	return
}

func TestC15(t *testing.T) {
	run := NewRun(t, "C15", "exploration",
		"Encrypted 4-node clusters (encryption v0 and v1 x label none/short x compression on/off, GossipVerifyOutgoing on) are driven through a script that makes every send site fire: joins and periodic push/pull in both roles, direct probes and acks, UDP black-holed between two nodes with TCP open (indirect probe requests, relayed acks, TCP fallback ping and its ack), user best-effort / reliable / SendToAddress / gossip broadcasts, UpdateNode, garbage and wrong-key streams from an outsider (error replies), a crash (failed probes, nacks, suspect messages also piggybacked on probes, dead messages), key rotation add/use/remove while traffic flows, a graceful leave. Oracle on EVERY buffer at the innermost transport: packet = [label header][version][nonce][ciphertext||tag] that opens under the sender's current primary key with the label as associated data; stream = the dialer's label header, then only encrypt frames whose ciphertext opens under the current primary with type|length|label as associated data; plus a canary scan (node names, metadata, user payloads, user state, ack payloads carry canaries that must never appear in a raw buffer). Required coverage (else inconclusive): opened plaintext types x path.")
	defer run.Finish()
	run.Assume("'for every code path' is structural: this check shows it for the send sites in the required coverage matrix and claims no more", "key changes are made at quiescent points, so the sender's current primary is well defined for every buffer")
	cfgs := []c15Cfg{{5, "", false, false}, {5, "conf", true, false}, {1, "conf", false, false}, {1, "", true, false}, {2, "c", false, false}, {4, "", true, false}, {5, "late", false, true}, {1, "", true, true}}
	for i, cfg := range cfgs {
		id := fmt.Sprintf("cfg/%d", i)
		if !run.Mine(i) || !run.Want(id) {
			continue
		}
		run.Journal(id, fmt.Sprintf("%+v", cfg))
		reps := run.Pick(4, 400)
		for r := 0; r < reps; r++ {
			var res []*c01Result
			var cells map[string]int64
			err := Bubble(t, func() { res, cells = runC15(run, run.Seed()*17+int64(i*100+r), cfg) })
			if err != nil {
				res = append(res, &c01Result{"C15/bubble", err.Error()})
			}
			run.Eval(1)
			for k, v := range cells {
				run.Cell("sent", k)
				run.Count("sent:"+k, v)
			}
			run.Cell("cfg", fmt.Sprintf("pv%d", cfg.PV), "label="+cfg.Label, fmt.Sprintf("comp=%v", cfg.Compress))
			for _, r := range res {
				run.Violation(id, r.Key, r.What, cfg)
			}
		}
		if i == 0 {
			run.Sample(cfg)
		}
	}
	for i := 0; i < run.Pick(4, 64); i++ {
		id := fmt.Sprintf("skip/%d", i)
		if !run.Mine(i) || !run.Want(id) {
			continue
		}
		run.Journal(id, "")
		var res []*c01Result
		pv := []int{5, 1, 2, 4}[i%4]
		err := Bubble(t, func() { res = runC15Skip(run, run.Seed()*53+int64(i), pv, i%8 >= 4) })
		if err != nil {
			res = append(res, &c01Result{"C15/bubble", err.Error()})
		}
		for _, r := range res {
			run.Violation(id, r.Key, r.What, map[string]any{"protocol_version": pv})
		}
	}
	for i, lb := range []string{"", "conf"} {
		id := fmt.Sprintf("busy/%d", i)
		if !run.Mine(i+2) || !run.Want(id) {
			continue
		}
		run.Journal(id, "")
		var res []*c01Result
		err := Bubble(t, func() { res = runC15Busy(run, run.Seed()*67+int64(i), lb) })
		if err != nil {
			res = append(res, &c01Result{"C15/bubble", err.Error()})
		}
		for _, r := range res {
			run.Violation(id, r.Key, r.What, map[string]any{"label": lb})
		}
	}
	if !run.Replaying() {
		run.Require("busy-at-cap|label=0", "busy-at-cap|label=4")
		run.Require("skip-inbound-check|stream-ping|pv=5", "skip-inbound-check|push-pull|pv=1", "skip-inbound-check|cleartext-request|pv=5")
		for _, ty := range []string{"ping", "indirectPing", "ack", "nack", "suspect", "alive", "dead", "user", "compound"} {
			run.Require("sent|packet|" + ty)
		}
		run.Require("sent|packet|compress", "sent|stream-initiator|pushPull", "sent|stream-responder|pushPull", "sent|stream-initiator|user",
			"sent|stream-initiator|ping", "sent|stream-responder|ack", "sent|stream-responder|err", "sent|stream-initiator|compress", "sent|stream-responder|compress")
	}
	run.Complete()
	if run.Violations() > 0 {
		t.Errorf("%d violation(s)", run.Violations())
	}
}

// runC15Busy: the node is at its cap of concurrent push/pull exchanges (127 join exchanges are parked in
// a slow merge delegate). Whatever it writes to the exchanges beyond the cap - nothing at all, or a
// refusal - must be an encrypt frame under the primary key with the label as associated data.
func runC15Busy(run *Run, seed int64, label string) (out []*c01Result) {
	fail := func(key, f string, a ...any) {
		out = append(out, &c01Result{"C15/" + key, fmt.Sprintf(f, a...)})
	}
	key := bytes.Repeat([]byte{0x11}, 16)
	rig, err := NewRig(RigOpts{Seed: seed, Label: label, Key: key, Spec: NodeSpec{Name: "V-busy-node-canary", IP: "10.9.9.9", WithMerge: true, Mutate: func(cf *memberlist.Config) {
		cf.ProbeInterval = noProbe
		cf.PushPullInterval = 0
		cf.GossipInterval = 0
		cf.TCPTimeout = 5 * time.Second
	}}})
	if err != nil {
		fail("harness/create", "%v", err)
		return
	}
	defer rig.Close()
	V := rig.V
	gate := make(chan struct{})
	V.mu.Lock()
	V.MergeVeto = func([]*memberlist.Node) error { <-gate; return nil }
	V.mu.Unlock()
	x := rig.AddPeer("x", "10.9.1.1", 7946)
	for i := 0; i < 135; i++ {
		i := i
		go x.PushPullBlocking(true, []WPushNodeState{{Name: fmt.Sprintf("j%d", i), Addr: []byte{10, 9, 6, byte(i%250 + 1)}, Port: 7946, Incarnation: 1, State: SAlive, Vsn: DefaultVsn()}}, nil)
		time.Sleep(time.Millisecond)
	}
	Settle(100 * time.Millisecond)
	// beyond the cap: look at the raw bytes of the answers
	refused := 0
	for i := 0; i < 6; i++ {
		ce, err := x.Dial()
		if err != nil {
			fail("harness/dial", "%v", err)
			break
		}
		var frame []byte
		rig.C.Net.Rand(func(rng *rand.Rand) {
			frame = BuildStreamMsg(rig.SCfg, BuildPushPull(true, []WPushNodeState{x.Self(1)}, nil), rng)
		})
		_, _ = ce.Write(frame)
		Settle(20 * time.Millisecond)
		raw := drain(ce)
		ce.Close()
		run.Eval(1)
		if len(raw) == 0 {
			refused++
			continue
		}
		_, frames, perr := ParseStream(raw, rig.Keys, label)
		if perr != nil {
			fail("leak/busy", "at the cap of concurrent push/pull exchanges the node answered a further one with %d bytes that are not an encrypt frame under the primary key with the label as associated data (%v); contains the node's name: %v; first bytes %x", len(raw), perr, bytes.Contains(raw, []byte("V-busy-node-canary")), raw[:min(len(raw), 32)])
			break
		}
		for _, f := range frames {
			if !f.Sealed {
				fail("leak/busy", "answer at the cap contains an unsealed frame of type %s", TypeName(f.Type))
			}
		}
		refused++
	}
	run.Cell("busy-at-cap", fmt.Sprintf("label=%d", len(label)))
	run.Count("exchanges_beyond_cap_inspected", int64(refused))
	close(gate)
	Settle(6 * time.Second)
	return
}
