package harness

// C07 — membership events are a serialized, faithful log of Members().
// The monitor itself lives in cluster.go (EventMon + CheckQuiescent) and is
// attached to every node of every scenario of every check; this test gives it
// dedicated workloads and required transition x cause coverage.

import (
	"fmt"
	"math/rand"
	"net"
	"strings"
	"testing"
	"time"

	"github.com/hashicorp/memberlist"
)

func genChurnScn(rng *rand.Rand, maxN int) faultScn {
	sc := faultScn{
		N:        3 + rng.Intn(maxN-2),
		PV:       []int{5, 2}[rng.Intn(2)],
		Indirect: rng.Intn(4),
		TCPPing:  rng.Intn(2) == 0,
		Compress: rng.Intn(2) == 0,
		PushPull: time.Duration(1+rng.Intn(4)) * time.Second,
		DeadTime: time.Duration(1+rng.Intn(5)) * time.Second, // short: reaping passes happen during the run
		Reclaim:  []time.Duration{0, 3 * time.Second}[rng.Intn(2)],
		TStop:    time.Duration(60+rng.Intn(60)) * time.Second,
	}
	t := 2 * time.Second
	down := map[int]string{}
	for t < sc.TStop {
		t += time.Duration(200+rng.Intn(5000)) * time.Millisecond
		a := rng.Intn(sc.N)
		switch st := down[a]; {
		case st == "crashed":
			if rng.Intn(2) == 0 {
				sc.Actions = append(sc.Actions, faultAction{At: t, Kind: "restart", A: a})
				delete(down, a)
			}
		case st == "left":
			// a departed node's name comes back from the same address
			sc.Actions = append(sc.Actions, faultAction{At: t, Kind: "rejoin", A: a})
			delete(down, a)
		default:
			switch rng.Intn(10) {
			case 0, 1:
				if len(down) < sc.N-2 {
					sc.Actions = append(sc.Actions, faultAction{At: t, Kind: []string{"crash", "hang"}[rng.Intn(2)], A: a})
					down[a] = "crashed"
				}
			case 2, 3:
				if len(down) < sc.N-2 {
					sc.Actions = append(sc.Actions, faultAction{At: t, Kind: "leave", A: a})
					down[a] = "left"
				}
			case 4:
				k := 1 + rng.Intn(sc.N-1)
				sc.Actions = append(sc.Actions, faultAction{At: t, Kind: "partition", Set: rng.Perm(sc.N)[:k]}, faultAction{At: t + time.Duration(2+rng.Intn(25))*time.Second, Kind: "heal"})
			case 5:
				sc.Actions = append(sc.Actions, faultAction{At: t, Kind: "loss", P: 0.4}, faultAction{At: t + 6*time.Second, Kind: "loss", P: 0})
			default:
				sc.Actions = append(sc.Actions, faultAction{At: t, Kind: "update", A: a})
			}
		}
	}
	sortActions(sc.Actions)
	sc.rareConfig(rng)
	return sc
}

func runC07Churn(run *Run, seed int64, sc faultScn, rng *rand.Rand) (out []*c01Result, cells map[string]int64, events int64) {
	ch, err := NewChaos(seed, sc, rng)
	if err != nil {
		return []*c01Result{{"C07/harness/create", err.Error()}}, nil, 0
	}
	defer ch.Close()
	next := 0
	ch.RunUntil(sc.TStop, &next)
	ch.stopFaults()
	ch.wg.Wait()
	Settle(10 * time.Second)
	ch.C.CheckQuiescent()
	for _, p := range ch.C.Problems() {
		out = append(out, &c01Result{p.Key, p.What})
	}
	cells = ch.C.EventCells()
	for _, n := range ch.C.Nodes {
		if n.Ev != nil {
			events += n.Ev.Events.Load()
			run.Count("in_callback_comparisons", n.Ev.InCbCmp.Load())
		}
	}
	run.Count("quiescent_polls", int64(ch.Polls))
	return
}

// concurrent bursts: several claims about the same member are handed to the
// node at the same instant through different goroutines (packet handler,
// stream handlers, local API), without waiting in between.
func runC07Burst(run *Run, seed int64, rounds int, rng *rand.Rand) (out []*c01Result, cells map[string]int64, events int64) {
	rig, x, y, err := newC01Rig(seed, c01Cfg{Reclaim: 2 * time.Second, AliveYield: seed%2 == 0})
	if err != nil {
		return []*c01Result{{"C07/harness/create", err.Error()}}, nil, 0
	}
	defer rig.Close()
	names := []string{"a", "b"}
	// a name first heard of at incarnation 0 (such a claim is not accepted), then properly announced
	x.Send(Enc(TAlive, &WAlive{Incarnation: 0, Node: "z0", Addr: []byte{10, 9, 0, 9}, Port: 7946, Meta: []byte("z"), Vsn: DefaultVsn()}))
	Settle(time.Millisecond)
	x.Send(Enc(TAlive, &WAlive{Incarnation: 2, Node: "z0", Addr: []byte{10, 9, 0, 9}, Port: 7946, Meta: []byte("z"), Vsn: DefaultVsn()}))
	Settle(time.Millisecond)
	rig.C.CheckQuiescent()
	inc := uint32(1)
	for r := 0; r < rounds; r++ {
		node := names[rng.Intn(2)]
		k := 2 + rng.Intn(4)
		for i := 0; i < k; i++ {
			c := genClaim(rng, []string{node}, 2*time.Second)
			c.SleepNs = 0
			c.Vsn = "ok"
			if rng.Intn(3) > 0 {
				inc++
			}
			c.Inc = inc
			via := x
			if rng.Intn(2) == 0 {
				via = y
			}
			if c.Carrier == "pp" || c.Carrier == "ppjoin" {
				// push/pull from its own goroutine so that it overlaps with the packets
				cc := c
				cc.async = true
				go func() { _ = rig.deliver(cc, via) }()
			} else {
				_ = rig.deliver(c, via)
			}
		}
		switch rng.Intn(8) {
		case 0, 1:
			rig.V.Del.SetMeta([]byte(fmt.Sprintf("vm%d", r)))
			go func() { _ = rig.V.ML().UpdateNode(time.Second) }()
		case 2:
			// the application's metadata has changed but UpdateNode has not been called yet, and an
			// accusation about the node itself arrives: whatever the refutation announces, the node's
			// own entry in Members() may only change together with an update event
			rig.V.Del.SetMeta([]byte(fmt.Sprintf("pending-meta-%d", r)))
			own := rig.V.Record("V")
			if own != nil {
				kind := rng.Intn(3)
				switch kind {
				case 0:
					x.Send(Enc(TSuspect, &WSuspect{Incarnation: own.Incarnation, Node: "V", From: "x"}))
				case 1:
					x.Send(Enc(TDead, &WDead{Incarnation: own.Incarnation + 1, Node: "V", From: "y"}))
				case 2:
					x.Send(Enc(TAlive, &WAlive{Incarnation: own.Incarnation + 2, Node: "V", Addr: own.Addr, Port: own.Port, Meta: []byte("someone-elses"), Vsn: own.Vsn[:]}))
				}
				run.Cell("burst", "self-accusation-with-pending-meta", []string{"suspect", "dead", "alive"}[kind])
			}
		}
		Settle(time.Duration(rng.Intn(3)) * time.Second)
		rig.C.CheckQuiescent()
		if ps := rig.C.Problems(); len(ps) > 0 {
			for _, p := range ps {
				out = append(out, &c01Result{p.Key, p.What})
			}
			break
		}
	}
	Settle(3 * time.Second)
	cells = rig.C.EventCells()
	events = rig.V.Ev.Events.Load()
	run.Count("in_callback_comparisons", rig.V.Ev.InCbCmp.Load())
	return
}

// a node (re)starts on an address that peers are already talking to: claims about its own name - what the
// cluster remembers of its previous life - are waiting in the socket when the listeners start, i.e. before the
// node has announced itself; working out the advertised address takes the transport a moment.
func runC07Startup(run *Run, seed int64, rng *rand.Rand) (out []*c01Result, cells map[string]int64, events int64) {
	c := NewCluster(seed)
	defer c.Drain() // (in-flight probes end on their timers; a bubble must not be left while goroutines wait for one)
	p, err := c.Add(NodeSpec{Name: "p", IP: "10.0.0.1", Meta: []byte("p")})
	if err != nil {
		return []*c01Result{{"C07/harness/create", err.Error()}}, nil, 0
	}
	oldIP, newIP := "10.0.0.2", "10.0.0.2"
	if rng.Intn(3) == 0 {
		newIP = "10.0.0.3" // the name comes back from another address
	}
	firstLife := rng.Intn(3) > 0
	var oldInc uint32 = 1 + uint32(rng.Intn(5))
	if firstLife {
		r0, err := c.Add(NodeSpec{Name: "r", IP: oldIP, Meta: []byte("life-1")})
		if err != nil {
			return []*c01Result{{"C07/harness/create", err.Error()}}, nil, 0
		}
		if _, err := r0.ML().Join([]string{p.EP.Addr}); err != nil {
			return []*c01Result{{"C07/harness/join", err.Error()}}, nil, 0
		}
		Settle(time.Second)
		if rec := p.Record("r"); rec != nil {
			oldInc = rec.Incarnation
		}
		c.Crash(r0)
		Settle(time.Duration(rng.Intn(3000)) * time.Millisecond)
	}
	kinds := []string{"alive-old", "alive-newer", "alive-same-othermeta", "suspect", "dead", "compound"}
	kind := kinds[rng.Intn(len(kinds))]
	delay := []time.Duration{0, time.Microsecond, time.Millisecond, 20 * time.Millisecond}[rng.Intn(4)]
	run.Cell("startup", kind, fmt.Sprintf("newaddr=%v", newIP != oldIP), fmt.Sprintf("firstlife=%v", firstLife), fmt.Sprintf("delay=%v", delay))
	oldAddr := net.ParseIP(oldIP).To4()
	mk := func(k string) []byte {
		switch k {
		case "alive-old":
			return Enc(TAlive, &WAlive{Incarnation: oldInc, Node: "r", Addr: oldAddr, Port: 7946, Meta: []byte("life-1"), Vsn: DefaultVsn()})
		case "alive-newer":
			return Enc(TAlive, &WAlive{Incarnation: oldInc + 3, Node: "r", Addr: oldAddr, Port: 7946, Meta: []byte("life-1"), Vsn: DefaultVsn()})
		case "alive-same-othermeta":
			return Enc(TAlive, &WAlive{Incarnation: 1, Node: "r", Addr: oldAddr, Port: 7946, Meta: []byte("older-meta"), Vsn: DefaultVsn()})
		case "suspect":
			return Enc(TSuspect, &WSuspect{Incarnation: oldInc, Node: "r", From: "p"})
		case "dead":
			return Enc(TDead, &WDead{Incarnation: oldInc, Node: "r", From: "p"})
		}
		return nil
	}
	r, err := c.Add(NodeSpec{Name: "r", IP: newIP, Meta: []byte("life-2"), PreCreate: func(ep *Endpoint) {
		if kind == "compound" {
			ep.Preload(p.EP.Addr, MakeCompound([][]byte{mk("suspect"), mk("alive-old"), mk("alive-newer")}))
		} else {
			ep.Preload(p.EP.Addr, mk(kind))
			if rng.Intn(2) == 0 {
				ep.Preload(p.EP.Addr, mk(kind)) // and its duplicate
			}
		}
		ep.OnAdvertise = func(call int) {
			if call >= 2 && delay > 0 {
				time.Sleep(delay)
			}
		}
	}})
	if err != nil {
		return []*c01Result{{"C07/startup/create-failed", fmt.Sprintf("Create of a restarting node failed: %v (waiting traffic: %s)", err, kind)}}, nil, 0
	}
	Settle(time.Millisecond)
	c.CheckQuiescent()
	if !contains(r.MemberNames(), "r") {
		out = append(out, &c01Result{"C07/startup/self-not-listed", fmt.Sprintf("after Create returned the node does not list itself in Members() (%v); waiting traffic %s, own record %s", r.MemberNames(), kind, recString(r.Record("r")))})
	}
	_, _ = r.ML().Join([]string{p.EP.Addr})
	Settle(5 * time.Second)
	r.Del.SetMeta([]byte("life-2b"))
	_ = r.ML().UpdateNode(time.Second)
	Settle(5 * time.Second)
	c.CheckQuiescent()
	for _, pr := range c.Problems() {
		out = append(out, &c01Result{pr.Key, pr.What})
	}
	// Registered finding (DESIGN section 4, #16): an ALIVE claim about the node's own name that is processed before
	// the node has created its own record builds that record from the claim. The symptoms this is known to
	// produce - and only these, only on the restarting node, only about its own name, only when such a claim was
	// waiting - are folded into two keys; everything else keeps its key.
	aliveWaiting := strings.HasPrefix(kind, "alive") || kind == "compound"
	moved := newIP != oldIP
	for _, r := range out {
		if !aliveWaiting {
			break
		}
		own := strings.HasPrefix(r.What, "[r @") || r.Key == "C07/startup/self-not-listed"
		aboutSelf, neverAlive := false, false
		switch r.Key {
		case "C07/automaton/join-while-present":
			aboutSelf = strings.Contains(r.What, "join for r while already present")
		case "C07/replay/gone-without-leave":
			aboutSelf = strings.Contains(r.What, "event replay lists r but Members() does not")
		case "C02/invariant/self-not-alive", "C02/invariant/self-not-listed", "C07/startup/self-not-listed":
			aboutSelf = true
			neverAlive = true
		}
		if own && aboutSelf {
			r.What = "[" + r.Key + "] " + r.What + fmt.Sprintf(" [waiting traffic %s, address changed %v, address look-up took %v]", kind, moved, delay)
			switch {
			case moved:
				r.Key = "C07/own-claim-before-announce/moved/never-alive"
			case neverAlive:
				// same address: the claim was processed after setAlive had drawn its incarnation and before it
				// applied its announcement, which then is older than the refutation made on the claim's behalf
				r.Key = "C07/own-claim-before-announce/overtaken/never-alive"
			default:
				r.Key = "C07/own-claim-before-announce/joined-twice"
			}
		}
	}
	cells = c.EventCells()
	for _, n := range c.Nodes {
		if n.Ev != nil {
			events += n.Ev.Events.Load()
		}
	}
	return
}

func TestC07(t *testing.T) {
	run := NewRun(t, "C07", "exploration",
		"The event monitor (installed on every node of every scenario of every check) asserts inside each callback: exactly one callback in flight (atomic counter, Gosched to widen), the per-member automaton absent -join-> present -update*-> present -leave-> absent, and - under the node lock memberlist itself holds - that the set of live records equals the replayed event set with the event's metadata/address equal to the record's; at every quiescent point Members() (names) and the locked dump (fields) must equal the replay. Dedicated workloads here: (a) churn fault scripts (crash/hang/restart, leave and same-name rejoin, partitions, loss, metadata updates) with GossipToTheDeadTime of 1-5 s so that reaping passes happen, (b) bursts of 2-5 claims about one member delivered at the same instant from the packet handler, push/pull stream handlers and UpdateNode. Cell = (transition incl. join-after-left/dead/new-address and leave as left|dead) x (cause read from the callback's stack: gossip, push-pull, own-timer, local-api).")
	defer run.Finish()
	run.Assume("in-callback comparisons read the table without locking because memberlist invokes event delegates while holding the node lock (if a change moved the callbacks outside the lock the comparison and the in-flight counter are what expose it)")
	merge := func(cells map[string]int64) {
		for k, v := range cells {
			for i := int64(0); i < v && i < 1; i++ {
				run.Cell("event", k)
			}
			run.Count("events:"+k, v)
		}
	}
	n := run.Pick(80, 8000)
	for i := 0; i < n; i++ {
		if !run.Mine(i) {
			continue
		}
		id := fmt.Sprintf("churn/%d", i)
		if !run.Want(id) {
			continue
		}
		rng := run.RNG(id)
		sc := genChurnScn(rng, run.Pick(8, 14))
		run.Journal(id, "")
		var res []*c01Result
		var cells map[string]int64
		var ev int64
		err := Bubble(t, func() { res, cells, ev = runC07Churn(run, run.Seed()*211+int64(i), sc, rng) })
		if err != nil {
			res = append(res, &c01Result{"C07/bubble", err.Error()})
		}
		run.Eval(ev + 1)
		merge(cells)
		for _, r := range res {
			run.Violation(id, r.Key, r.What, map[string]any{"scenario": sc})
		}
		if i == 0 {
			run.Sample(sc)
		}
	}
	nb := run.Pick(80, 8000)
	for i := 0; i < nb; i++ {
		if !run.Mine(i) {
			continue
		}
		id := fmt.Sprintf("burst/%d", i)
		if !run.Want(id) {
			continue
		}
		rng := run.RNG(id)
		run.Journal(id, "")
		var res []*c01Result
		var cells map[string]int64
		var ev int64
		err := Bubble(t, func() { res, cells, ev = runC07Burst(run, run.Seed()*977+int64(i), 60, rng) })
		if err != nil {
			res = append(res, &c01Result{"C07/bubble", err.Error()})
		}
		run.Eval(ev + 1)
		merge(cells)
		for _, r := range res {
			run.Violation(id, r.Key, r.What, map[string]any{"burst_case": i})
		}
	}
	ns := run.Pick(240, 12000)
	for i := 0; i < ns; i++ {
		if !run.Mine(i) {
			continue
		}
		id := fmt.Sprintf("startup/%d", i)
		if !run.Want(id) {
			continue
		}
		rng := run.RNG(id)
		run.Journal(id, "")
		var res []*c01Result
		var cells map[string]int64
		var ev int64
		err := Bubble(t, func() { res, cells, ev = runC07Startup(run, run.Seed()*131+int64(i), rng) })
		if err != nil {
			res = append(res, &c01Result{"C07/bubble", err.Error()})
		}
		run.Eval(ev + 1)
		merge(cells)
		for _, r := range res {
			run.Violation(id, r.Key, r.What, map[string]any{"startup_case": i})
		}
	}
	if !run.Replaying() {
		run.Require("event|join/first|local-api", "event|join/first|gossip", "event|join/first|push-pull",
			"event|join/after-dead|gossip", "event|join/after-dead|push-pull", "event|join/after-left|gossip", "event|join/after-left|push-pull",
			"event|leave/dead|own-timer", "event|leave/dead|gossip", "event|leave/left|gossip", "event|leave/left|push-pull", "event|leave/left|local-api",
			"event|update|gossip", "event|update|push-pull", "event|update|local-api")
	}
	run.Complete()
	if run.Violations() > 0 {
		t.Errorf("%d violation(s)", run.Violations())
	}
}

var _ = memberlist.StateAlive
