package harness

// C04 — no false suspicion in a healthy cluster.

import (
	"bytes"
	"fmt"
	"math/rand"
	"strings"
	"sync"
	"testing"
	"time"

	"github.com/hashicorp/memberlist"
)

type c04Scn struct {
	N        int    `json:"n"`
	Latency  string `json:"latency"`          // zero | uniform | bimodal
	PV       int    `json:"protocol_version"` // 0 = mixed
	Indirect int    `json:"indirect_checks"`
	TCPPing  bool   `json:"tcp_pings"`
	Compress bool   `json:"compress"`
	Enc      bool   `json:"encrypt"`
	// encryption roll-out stage: every node has the keyring, accepts cleartext as well
	// (GossipVerifyIncoming off) and odd-numbered nodes still send cleartext (GossipVerifyOutgoing off)
	Rollout bool `json:"encryption_rollout_stage,omitempty"`
	// AwarenessMaxMultiplier: -1 = library default (8); 0 and 1 are the smallest values a hand-built configuration can carry
	Awareness int           `json:"awareness_max_multiplier"`
	Label     string        `json:"label"`
	JoinMode  string        `json:"join_mode"` // burst | staggered
	Ops       int           `json:"ops"`
	Dur       time.Duration `json:"duration_ns"`
	V6        bool          `json:"ipv6,omitempty"`                // members live on 16-byte addresses
	SlowState time.Duration `json:"slow_local_state_ns,omitempty"` // every other member's delegate takes this long in LocalState
}

// healthyTap watches every packet and stream for accusations.
type healthyTap struct {
	mu        sync.Mutex
	keys      [][]byte
	label     string
	bad       []string
	byType    map[string]int64
	pings     map[uint64]time.Time // (from,seq) -> sent
	maxRTT    time.Duration
	acks      int64
	streamBuf map[string][]byte // connID|dir -> bytes
	// roll-out stage: cleartext and sealed traffic are both legitimate
	cleartextToo bool
}

func (h *healthyTap) note(f string, a ...any) {
	if len(h.bad) < 10 {
		h.bad = append(h.bad, fmt.Sprintf(f, a...))
	}
}

func (h *healthyTap) onPacket(ev *PacketEvent) {
	if ev.Closed {
		return // attempt on a transport its owner already shut down: never reached the network
	}
	h.mu.Lock()
	keys, mixed := h.keys, h.cleartextToo
	h.mu.Unlock()
	pi := ParsePacket(ev.Buf, keys)
	if pi.Err != nil && mixed {
		pi = ParsePacket(ev.Buf, nil) // roll-out stage: some members still send in clear
	}
	h.mu.Lock()
	defer h.mu.Unlock()
	if pi.Err != nil {
		h.note("unparsable packet %s->%s: %v", ev.From, ev.To, pi.Err)
		return
	}
	for _, l := range pi.Leaves {
		h.byType[TypeName(l.Type)]++
		switch l.Type {
		case TSuspect:
			var s WSuspect
			_ = mpDecode(l.Body, &s)
			h.note("suspect message on the wire at %v: %s->%s about %s (inc %d) from %s", ev.At.Format("05.000"), ev.From, ev.To, s.Node, s.Incarnation, s.From)
		case TDead:
			var d WDead
			_ = mpDecode(l.Body, &d)
			if d.From != d.Node {
				h.note("dead message (not a leave) on the wire: %s->%s about %s from %s", ev.From, ev.To, d.Node, d.From)
			}
		case TNack:
			h.note("nack on the wire %s->%s (an indirect probe failed)", ev.From, ev.To)
		case TIndirectPing:
			h.note("indirect ping request on the wire %s->%s (a direct probe timed out)", ev.From, ev.To)
		}
	}
}

func (h *healthyTap) onStream(ev *StreamEvent) {
	h.mu.Lock()
	defer h.mu.Unlock()
	k := fmt.Sprintf("%d|%v", ev.ConnID, ev.Dialer)
	h.streamBuf[k] = append(h.streamBuf[k], ev.Buf...)
}

func (h *healthyTap) finishStreams() {
	h.mu.Lock()
	defer h.mu.Unlock()
	for k, raw := range h.streamBuf {
		_, frames, err := ParseStream(raw, h.keys, h.label)
		if err != nil && h.cleartextToo {
			_, frames, err = ParseStream(raw, nil, h.label)
		}
		if err != nil {
			h.note("unparsable stream %s: %v", k, err)
			continue
		}
		for _, f := range frames {
			h.byType["stream:"+TypeName(f.Type)]++
			if f.Type == TPushPull {
				_, nodes, _, err := ParsePushPull(f.Body)
				if err != nil {
					h.note("unparsable push/pull in stream %s: %v", k, err)
					continue
				}
				for _, n := range nodes {
					if n.State == SSuspect || n.State == SDead {
						h.note("push/pull state reports %s as %s", n.Name, StateNames[n.State])
					}
				}
			}
			if f.Type == TPing {
				h.note("TCP fallback ping in stream %s (a UDP probe failed)", k)
			}
		}
	}
}

func runC04(run *Run, seed int64, sc c04Scn, rng *rand.Rand) (out []*c01Result, logs map[string][]string) {
	fail := func(key, f string, a ...any) {
		if len(out) < 6 {
			out = append(out, &c01Result{"C04/" + key, fmt.Sprintf(f, a...)})
		}
	}
	c := NewCluster(seed)
	defer func() {
		if len(out) > 0 {
			logs = c.LogTails(25)
		}
		c.Drain()
	}()
	base := memberlist.DefaultLANConfig()
	bound := base.ProbeTimeout/2 - time.Millisecond
	lat := func() time.Duration {
		switch sc.Latency {
		case "zero":
			return 0
		case "bimodal":
			if c.Net.Intn(2) == 0 {
				return time.Duration(c.Net.Intn(int(time.Millisecond)))
			}
			return bound - time.Duration(c.Net.Intn(int(2*time.Millisecond)))
		}
		return time.Duration(c.Net.Intn(int(bound)))
	}
	c.Net.Policy = func(n *Net, from, to string, buf []byte) Fate { return Fate{Delay: lat()} }
	c.Net.StreamLat = func(from, to string) time.Duration { return lat() / 4 }
	var key []byte
	if sc.Enc {
		key = bytes.Repeat([]byte{0x42}, 16)
	}
	curKeys := [][]byte{key} // what a node created now must be given (primary first)
	tap := &healthyTap{byType: map[string]int64{}, streamBuf: map[string][]byte{}, label: sc.Label, cleartextToo: sc.Rollout}
	if key != nil {
		tap.keys = [][]byte{key}
	}
	c.Net.KeepTrace = false
	c.Net.OnPacket = append(c.Net.OnPacket, tap.onPacket)
	c.Net.OnStream = append(c.Net.OnStream, tap.onStream)
	left := map[string]bool{}
	isReturn := map[*SimNode]bool{} // second lives of departed names: they may have to refute what is left of their first
	mk := func(i int) (*SimNode, error) {
		ip := ""
		if sc.V6 {
			ip = fmt.Sprintf("fd00:4::%x", i+1)
		}
		return c.Add(NodeSpec{Name: fmt.Sprintf("n%d", i), IP: ip, Meta: []byte(fmt.Sprintf("meta-%d-0", i)), Mutate: func(cf *memberlist.Config) {
			if sc.SlowState > 0 && i%2 == 0 {
				if d, ok := cf.Delegate.(*UserDelegate); ok {
					d.StateDelay = sc.SlowState
					d.State = []byte(fmt.Sprintf("state-of-n%d", i))
				}
			}
			cf.IndirectChecks = sc.Indirect
			cf.DisableTcpPings = !sc.TCPPing
			cf.EnableCompression = sc.Compress
			cf.Label = sc.Label
			pv := sc.PV
			if pv == 0 {
				pv = 2 + i%4
			}
			cf.ProtocolVersion = uint8(pv)
			if key != nil {
				ring, _ := memberlist.NewKeyring(curKeys, curKeys[0])
				cf.Keyring = ring
				if sc.Rollout {
					cf.GossipVerifyIncoming = false
					cf.GossipVerifyOutgoing = i%2 == 0
				}
			}
			cf.PushPullInterval = 10 * time.Second
			if sc.Awareness >= 0 {
				cf.AwarenessMaxMultiplier = sc.Awareness
			}
		}})
	}
	// join phase
	seedNode, err := mk(0)
	if err != nil {
		fail("harness/create", "%v", err)
		return
	}
	order := rng.Perm(sc.N - 1)
	var wg sync.WaitGroup
	for _, oi := range order {
		i := oi + 1
		nd, err := mk(i)
		if err != nil {
			fail("harness/create", "%v", err)
			return
		}
		if sc.JoinMode == "burst" {
			wg.Add(1)
			go func() {
				defer wg.Done()
				if _, err := nd.ML().Join([]string{seedNode.EP.Addr}); err != nil {
					c.sink.add(nd.Name, "C04/harness/join", "join failed: %v", err)
				}
			}()
		} else {
			time.Sleep(time.Duration(rng.Intn(1500)) * time.Millisecond)
			target := c.Nodes[rng.Intn(len(c.Nodes)-1)]
			if _, err := nd.ML().Join([]string{target.EP.Addr}); err != nil {
				fail("harness/join", "%v", err)
				return
			}
		}
	}
	wg.Wait()
	logPos := map[string]int{}
	poll := func() bool {
		synctestWait()
		for _, n := range c.Nodes {
			if n.Stopped {
				continue
			}
			m := n.ML()
			if h := m.GetHealthScore(); h != 0 && !isReturn[n] {
				fail("health", "%s health score = %d in a healthy cluster", n.Name, h)
			}
			v := m.VerifDump()
			for _, r := range v.Records {
				if r.State == memberlist.StateSuspect || r.State == memberlist.StateDead || r.HasTimer {
					fail("state/"+StateNames[r.State], "%s holds %s as %s (timer=%v) while every member is responsive", n.Name, r.Name, StateNames[r.State], r.HasTimer)
				}
				if r.State == memberlist.StateLeft && !left[r.Name] {
					fail("state/left-without-leave", "%s holds %s as left but it never called Leave", n.Name, r.Name)
				}
			}
			for _, ln := range n.Log.Grep(logPos[n.Name], "has failed, no acks received", "as failed, suspect timeout reached", "Refuting a suspect message", "Refuting a dead message", "Failed UDP ping", "Failed fallback TCP ping") {
				fail("log", "%s logged at %s: %s", n.Name, ln.At.Format("05.000"), ln.Text)
			}
			logPos[n.Name] = n.Log.Len()
			for _, e := range n.Ev.Log() {
				if e.Kind == "leave" && !left[e.Name] {
					fail("leave-event", "%s delivered NotifyLeave(%s) but that member never left", n.Name, e.Name)
				}
			}
		}
		c.CheckQuiescent()
		for _, p := range c.Problems() {
			out = append(out, &c01Result{p.Key, p.What})
		}
		tap.mu.Lock()
		for _, b := range tap.bad {
			fail("wire", "%s", b)
		}
		tap.bad = nil
		tap.mu.Unlock()
		return len(out) == 0
	}
	end := time.Now().Add(sc.Dur)
	opTimes := make([]time.Duration, sc.Ops)
	for i := range opTimes {
		opTimes[i] = time.Duration(rng.Int63n(int64(sc.Dur) * 8 / 10))
	}
	start := time.Now()
	metaGen := 0
	polls := 0
	var leavers []*SimNode
	allLeftAt := map[*SimNode]time.Time{}
	nextID := sc.N
	rotPhase := 0
	for time.Now().Before(end) {
		time.Sleep(250 * time.Millisecond)
		polls++
		if !poll() {
			return
		}
		// scheduled user operations
		for i, at := range opTimes {
			if at < 0 || time.Since(start) < at {
				continue
			}
			opTimes[i] = -1
			live := []*SimNode{}
			for _, n := range c.Nodes {
				if !n.Stopped && (!left[n.Name] || isReturn[n]) {
					live = append(live, n)
				}
			}
			if len(live) < 2 {
				continue
			}
			a := live[rng.Intn(len(live))]
			b := live[rng.Intn(len(live))]
			switch op := rng.Intn(10); op {
			case 0:
				metaGen++
				a.Del.SetMeta([]byte(fmt.Sprintf("meta-%s-%d", a.Name, metaGen)))
				go func() { _ = a.ML().UpdateNode(5 * time.Second) }()
				run.Cell("op", "update")
			case 1:
				if len(leavers) < 3 && len(live) > 2 {
					leavers = append(leavers, a)
					left[a.Name] = true
					go func() {
						if err := a.ML().Leave(20 * time.Second); err != nil {
							c.sink.add(a.Name, "C04/leave-failed", "Leave in a healthy cluster: %v", err)
						}
						a.mu.Lock()
						a.Departed = true
						a.mu.Unlock()
					}()
					run.Cell("op", "leave")
					if len(leavers) > 1 {
						run.Cell("op", "leave-again")
					}
				}
			case 2:
				a.Del.Queue([]byte(fmt.Sprintf("bcast-%d", i)))
				run.Cell("op", "broadcast")
			case 3, 4:
				if a != b {
					for _, mb := range a.ML().Members() {
						if mb.Name == b.Name {
							if op == 3 {
								_ = a.ML().SendBestEffort(mb, []byte("hello"))
								run.Cell("op", "best-effort")
							} else {
								go func() { _ = a.ML().SendReliable(mb, []byte("hello-reliable")) }()
								run.Cell("op", "reliable")
							}
						}
					}
				}
			case 5:
				if a != b {
					go func() { _, _ = a.ML().Join([]string{b.EP.Addr}) }()
					run.Cell("op", "rejoin")
				}
			case 8:
				// a backlog of several hundred one-byte user broadcasts at one node: they ride behind its
				// pings and acks, hundreds to a packet
				for k := 0; k < 300+rng.Intn(300); k++ {
					a.Del.Queue([]byte{byte(k)})
				}
				run.Cell("op", "broadcast-backlog")
			case 7:
				// key rotation, one phase per poll: install everywhere, use everywhere, remove the old one
				if key != nil && !sc.Rollout && rotPhase == 0 {
					rotPhase = 1
					run.Cell("op", "key-rotation")
				}
			case 9:
				// the application's metadata changes now, UpdateNode is called only seconds later; joins and
				// state exchanges happen in between
				metaGen++
				a.Del.SetMeta([]byte(fmt.Sprintf("meta-%s-%d-late", a.Name, metaGen)))
				wait := time.Duration(2+rng.Intn(12)) * time.Second
				go func() {
					time.Sleep(wait)
					if !a.Stopped {
						_ = a.ML().UpdateNode(5 * time.Second)
					}
				}()
				if nextID < sc.N+3 && rng.Intn(2) == 0 {
					// ... a brand-new member, which has never heard of anybody, joins through that very node
					nd, err := mk(nextID)
					nextID++
					if err != nil {
						fail("harness/create", "%v", err)
						return
					}
					go func() {
						if _, err := nd.ML().Join([]string{a.EP.Addr}); err != nil {
							c.sink.add(nd.Name, "C04/harness/join", "late join failed: %v", err)
						}
					}()
					run.Cell("op", "update-announced-late+newcomer")
				} else if a != b {
					go func() { _, _ = b.ML().Join([]string{a.EP.Addr}) }()
				}
				run.Cell("op", "update-announced-late")
			case 6:
				// a brand-new member arrives while everything else goes on
				if nextID < sc.N+3 {
					nd, err := mk(nextID)
					nextID++
					if err != nil {
						fail("harness/create", "%v", err)
						return
					}
					go func() {
						if _, err := nd.ML().Join([]string{a.EP.Addr}); err != nil {
							c.sink.add(nd.Name, "C04/harness/join", "late join failed: %v", err)
						}
					}()
					run.Cell("op", "late-join")
				}
			}
		}
		if rotPhase > 0 && rotPhase <= 3 {
			k2 := bytes.Repeat([]byte{0x43}, 16)
			for _, n := range c.Nodes {
				if n.Stopped || n.Conf.Keyring == nil {
					continue
				}
				switch rotPhase {
				case 1:
					_ = n.Conf.Keyring.AddKey(k2)
				case 2:
					_ = n.Conf.Keyring.UseKey(k2)
				case 3:
					_ = n.Conf.Keyring.RemoveKey(key)
				}
			}
			switch rotPhase {
			case 1:
				tap.mu.Lock()
				tap.keys = [][]byte{k2, key}
				tap.mu.Unlock()
				curKeys = [][]byte{key, k2}
			case 2:
				curKeys = [][]byte{k2, key}
			case 3:
				curKeys = [][]byte{k2}
			}
			rotPhase++
		}
		// a leaver keeps answering until every peer has recorded the departure
		for _, leaver := range leavers {
			if leaver.Stopped {
				continue
			}
			leaver.mu.Lock()
			all := leaver.Departed
			leaver.mu.Unlock()
			for _, n := range c.Nodes {
				if n.Stopped || n == leaver {
					continue
				}
				if r := n.Record(leaver.Name); r != nil && r.State != memberlist.StateLeft {
					all = false
				}
			}
			// a peer may have picked the leaver for a probe in the very instant it
			// learned of the departure: keep answering for two more seconds
			if !all {
				delete(allLeftAt, leaver)
				continue
			}
			if _, ok := allLeftAt[leaver]; !ok {
				allLeftAt[leaver] = time.Now()
			}
			if time.Since(allLeftAt[leaver]) >= 2*time.Second {
				c.Stop(leaver)
			}
		}
	}
	tap.finishStreams()
	poll()
	tap.mu.Lock()
	for k, v := range tap.byType {
		run.Count("msg:"+k, v)
	}
	tap.mu.Unlock()
	run.Count("polls", int64(polls))
	var evs int64
	for _, n := range c.Nodes {
		evs += n.Ev.Events.Load()
	}
	run.Count("events_judged_by_C07_monitor", evs)
	return
}

func synctestWait() { Settle(0) }

func TestC04(t *testing.T) {
	run := NewRun(t, "C04", "exploration",
		"Real clusters of 2-16 nodes in virtual time with NO faults: every packet delayed by a PRNG value strictly below ProbeTimeout/2 (zero / uniform / bimodal-near-bound profiles, arbitrary reordering), stream writes likewise; joins in PRNG order (staggered or all at once), interleaved UpdateNode, up to three graceful Leaves (each leaver keeps answering until every peer recorded it), up to three brand-new members joining mid-run, user broadcasts, best-effort and reliable sends, extra Joins. Absence monitors: (wire) any suspect message, dead message with From != Node, indirect-ping request, nack or TCP fallback ping; (push/pull) any entry in state suspect/dead; (dump, every 250 ms) any suspect/dead record or suspicion timer, left without Leave; (log) failure/refutation lines; NotifyLeave for a non-leaver; GetHealthScore != 0. The C07 event monitor and C02 invariant run on every node. Cell = (n bucket, latency profile, config, operation).")
	defer run.Finish()
	run.Assume("latency bound is strict (< ProbeTimeout/2 - 1 ms) so no ack/timeout tie can occur", "stream writes use a quarter of the packet latency per write (a push/pull is several writes)")
	n := run.Pick(96, 9600)
	for i := 0; i < n; i++ {
		if !run.Mine(i) {
			continue
		}
		id := fmt.Sprintf("healthy/%d", i)
		if !run.Want(id) {
			continue
		}
		rng := run.RNG(id)
		sc := c04Scn{
			N:         2 + rng.Intn(run.Pick(11, 15)),
			Latency:   []string{"zero", "uniform", "bimodal"}[i%3],
			PV:        []int{5, 5, 2, 1, 0, 3}[rng.Intn(6)],
			Indirect:  rng.Intn(4),
			TCPPing:   rng.Intn(3) > 0,
			Compress:  rng.Intn(2) == 0,
			Enc:       rng.Intn(3) == 0,
			Rollout:   i%4 == 1,
			Awareness: []int{-1, -1, 0, 1}[i%4],
			Label:     []string{"", "", "cluster-a"}[rng.Intn(3)],
			JoinMode:  []string{"burst", "staggered"}[rng.Intn(2)],
			Ops:       rng.Intn(12),
			Dur:       time.Duration(40+rng.Intn(80)) * time.Second,
		}
		if i%7 == 0 {
			sc.N = 16
		}
		if i%48 == 5 {
			sc.N = 72 // a larger table: retransmit limits, probe-list shuffling and state size scale with it
			sc.Dur = 45 * time.Second
			sc.JoinMode = "staggered"
		}
		sc.V6 = rng.Intn(4) == 0
		if rng.Intn(4) == 0 {
			sc.SlowState = []time.Duration{300 * time.Millisecond, 1200 * time.Millisecond, 2500 * time.Millisecond}[rng.Intn(3)]
		}
		if sc.Rollout {
			sc.Enc = true
		}
		run.Journal(id, fmt.Sprintf("%+v", sc))
		var res []*c01Result
		var logs map[string][]string
		err := Bubble(t, func() { res, logs = runC04(run, run.Seed()*101+int64(i), sc, rng) })
		if err != nil {
			res = append(res, &c01Result{"C04/bubble", err.Error()})
		}
		run.Eval(1)
		nb := "n<=4"
		if sc.N > 4 {
			nb = "n<=9"
		}
		if sc.N > 9 {
			nb = "n>=10"
		}
		run.Cell("scn", nb, sc.Latency, fmt.Sprintf("pv%d", sc.PV), fmt.Sprintf("ind%d", sc.Indirect), fmt.Sprintf("tcp=%v", sc.TCPPing), sc.JoinMode)
		for _, r := range res {
			key := r.Key
			if strings.HasPrefix(key, "C04/wire") {
				key = "C04/wire"
			}
			run.Violation(id, key, r.What, map[string]any{"scenario": sc, "logs": logs})
		}
		if i == 0 {
			run.Sample(sc)
		}
	}
	if !run.Replaying() {
		run.Require("op|broadcast-backlog", "op|update", "op|leave", "op|leave-again", "op|late-join", "op|broadcast", "op|best-effort", "op|reliable")
	}
	run.Complete()
	if run.Violations() > 0 {
		t.Errorf("%d violation(s)", run.Violations())
	}
}
