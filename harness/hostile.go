package harness

// E3 — hostile-input engine shared by C13 and C14: a victim node with a small
// view, a corpus of genuine messages built by the oracle-side codec (their
// acceptance by the victim is the positive control), and mutators.

import (
	"bytes"
	"encoding/hex"
	"fmt"
	"math/rand"
	"strings"
	"time"

	"github.com/hashicorp/memberlist"
)

type hostCfg struct {
	Label    string `json:"label"`
	EncVsn   int    `json:"enc_version"` // -1 none, 0, 1
	Verify   bool   `json:"verify_incoming"`
	Compress bool   `json:"compress"`
	Skip     bool   `json:"skip_inbound_label_check"`   // an outer layer strips the header: traffic arrives without one
	Late     bool   `json:"keys_installed_at_run_time"` // the node is created with an empty keyring; the keys are installed afterwards
}

func (c hostCfg) String() string {
	s := fmt.Sprintf("label=%q enc=%d verify=%v comp=%v skip=%v", c.Label, c.EncVsn, c.Verify, c.Compress, c.Skip)
	if c.Late {
		s += " late-keys"
	}
	return s
}

type victim struct {
	rig  *Rig
	cfg  hostCfg
	x, y *FakePeer
	k1   []byte
	k2   []byte
	// stream transmissions sent in two parts with something happening at the receiver in between
	splitAt   int
	midStream func()
}

func newVictim(seed int64, cfg hostCfg, mut func(cf *memberlist.Config)) (*victim, error) {
	v := &victim{cfg: cfg, k1: bytes.Repeat([]byte{0xA1}, 16), k2: bytes.Repeat([]byte{0xB2}, 32)}
	var key []byte
	pver := uint8(5)
	if cfg.EncVsn >= 0 {
		key = v.k1
		if cfg.EncVsn == 0 {
			pver = 1
		}
	}
	rigKey := key
	if cfg.Late {
		rigKey = nil
	}
	rig, err := NewRig(RigOpts{Seed: seed, Label: cfg.Label, Key: rigKey, Compress: cfg.Compress, PVer: pver, Spec: NodeSpec{Name: "V", IP: "10.9.9.9", WithPing: true, Mutate: func(cf *memberlist.Config) {
		cf.ProbeInterval = noProbe
		cf.PushPullInterval = 0
		cf.GossipInterval = 0
		cf.GossipVerifyIncoming = cfg.Verify
		cf.SkipInboundLabelCheck = cfg.Skip
		cf.TCPTimeout = 2 * time.Second
		if cfg.EncVsn >= 0 && !cfg.Late {
			_ = cf.Keyring.AddKey(v.k2)
		}
		if cfg.EncVsn >= 0 && cfg.Late {
			cf.Keyring, _ = memberlist.NewKeyring(nil, nil)
		}
		if mut != nil {
			mut(cf)
		}
	}}})
	if err != nil {
		return nil, err
	}
	v.rig = rig
	rig.NoHeader = cfg.Skip
	if cfg.EncVsn >= 0 && cfg.Late {
		// encryption is switched on while the node runs
		ring := rig.V.Conf.Keyring
		if err := ring.AddKey(v.k1); err != nil {
			return nil, err
		}
		if err := ring.AddKey(v.k2); err != nil {
			return nil, err
		}
		if err := ring.UseKey(v.k1); err != nil {
			return nil, err
		}
		rig.PCfg.Key, rig.SCfg.Key = v.k1, v.k1
	}
	if cfg.EncVsn >= 0 {
		rig.Keys = [][]byte{v.k1, v.k2}
	}
	v.x = rig.AddPeer("x", "10.9.1.1", 7946)
	v.y = rig.AddPeer("y", "10.9.1.2", 7946)
	rig.Introduce(v.x, 1)
	rig.Introduce(v.y, 1)
	Settle(time.Millisecond)
	if rig.V.Record("x") == nil || rig.V.Record("y") == nil {
		return nil, fmt.Errorf("victim did not admit the genuine peers under %s", cfg)
	}
	return v, nil
}

// genuine plaintext packet messages (complete messages starting with the type byte)
func genuinePacketMsgs(rng *rand.Rand, tag int) map[string][]byte {
	x := []byte{10, 9, 1, 1}
	return map[string][]byte{
		"ping":     Enc(TPing, &WPing{SeqNo: uint32(100000 + tag), Node: "V", SourceAddr: x, SourcePort: 7946, SourceNode: "x"}),
		"indirect": Enc(TIndirectPing, &WIndirectPing{SeqNo: uint32(200000 + tag), Target: []byte{10, 9, 1, 2}, Port: 7946, Node: "y", Nack: true, SourceAddr: x, SourcePort: 7946, SourceNode: "x"}),
		"ack":      Enc(TAck, &WAck{SeqNo: uint32(300000 + tag), Payload: []byte("pl")}),
		"nack":     Enc(TNack, &WNack{SeqNo: uint32(400000 + tag)}),
		"suspect":  Enc(TSuspect, &WSuspect{Incarnation: 1, Node: "y", From: "x"}),
		"alive":    Enc(TAlive, &WAlive{Incarnation: 7, Node: fmt.Sprintf("new%d", tag), Addr: []byte{10, 9, 4, byte(tag%250 + 1)}, Port: 7946, Meta: []byte("meta-of-new-node"), Vsn: DefaultVsn()}),
		"dead":     Enc(TDead, &WDead{Incarnation: 1, Node: "y", From: "x"}),
		"user":     append([]byte{TUser}, []byte(fmt.Sprintf("user-payload-%06d-with-a-tail-of-sixteen\x10\x10\x10\x10\x10\x10\x10\x10\x10\x10\x10\x10\x10\x10\x10\x10", tag))...),
		"user1":    append([]byte{TUser}, []byte(fmt.Sprintf("user-%06d-ends-in-one\x01", tag))...),
		"compound": MakeCompound([][]byte{Enc(TNack, &WNack{SeqNo: 1}), append([]byte{TUser}, []byte(fmt.Sprintf("in-compound-%06d", tag))...), Enc(TPing, &WPing{SeqNo: uint32(500000 + tag), Node: "V", SourceAddr: x, SourcePort: 7946, SourceNode: "x"})}),
		"compress": LZWCompress(append([]byte{TUser}, bytes.Repeat([]byte(fmt.Sprintf("zip%06d", tag)), 20)...)),
	}
}

func genuineStreamMsgs(tag int) map[string][]byte {
	return map[string][]byte{
		"pushpull": BuildPushPull(false, []WPushNodeState{
			{Name: "x", Addr: []byte{10, 9, 1, 1}, Port: 7946, Incarnation: 1, State: SAlive, Vsn: DefaultVsn()},
			{Name: fmt.Sprintf("pp%d", tag), Addr: []byte{10, 9, 5, byte(tag%250 + 1)}, Port: 7946, Incarnation: 2, State: SAlive, Meta: []byte("pp-meta"), Vsn: DefaultVsn()},
		}, []byte(fmt.Sprintf("user-state-%06d", tag))),
		"pushpull-join": BuildPushPull(true, []WPushNodeState{
			{Name: "x", Addr: []byte{10, 9, 1, 1}, Port: 7946, Incarnation: 1, State: SAlive, Vsn: DefaultVsn()},
		}, nil),
		"user": BuildUserStream([]byte(fmt.Sprintf("reliable-%06d-ends-in-one\x01", tag))),
		"ping": Enc(TPing, &WPing{SeqNo: uint32(600000 + tag), Node: "V"}),
	}
}

// wrapPacket seals/labels a genuine packet message for the victim's config.
func (v *victim) wrapPacket(msg []byte, crc bool) []byte {
	pc := PacketCfg{Label: v.cfg.Label, CRC: crc}
	if v.cfg.EncVsn >= 0 {
		pc.Key, pc.EncVsn = v.k1, v.cfg.EncVsn
	}
	var out []byte
	v.rig.C.Net.Rand(func(r *rand.Rand) { out = BuildPacket(pc, msg, r) })
	if v.cfg.Skip {
		// an outer layer already removed the header; the label stays the associated data
		out = out[len(LabelHeader(v.cfg.Label)):]
	}
	return out
}

// wrapStream returns label header ++ frame for a genuine stream message.
func (v *victim) wrapStream(msg []byte, compress bool) (header, frame []byte) {
	sc := StreamCfg{Label: v.cfg.Label, Compress: compress}
	if v.cfg.EncVsn >= 0 {
		sc.Key, sc.EncVsn = v.k1, v.cfg.EncVsn
	}
	v.rig.C.Net.Rand(func(r *rand.Rand) { frame = BuildStreamMsg(sc, msg, r) })
	return v.header(), frame
}

// header is the label header genuine inbound traffic carries for this victim.
func (v *victim) header() []byte {
	if v.cfg.Skip {
		return nil
	}
	return LabelHeader(v.cfg.Label)
}

// digest is a cheap fingerprint of everything an undecodable input must not touch.
type vDigest struct {
	Records  string
	Members  int
	Events   int
	Msgs     int
	Merged   int
	Queue    int
	Health   int
	Conflict int
}

func (v *victim) digest() vDigest {
	m := v.rig.V.ML()
	// (the broadcast queue is not part of the digest: it is consumed by any later send, e.g. the
	// delayed nack of an earlier, well-formed indirect-ping request)
	d := vDigest{Members: m.NumMembers(), Health: m.GetHealthScore()}
	var b bytes.Buffer
	for _, r := range m.VerifDump().Records {
		fmt.Fprintf(&b, "%s:%d:%d:%x:%d:%x;", r.Name, r.Incarnation, r.State, r.Addr, r.Port, r.Meta)
	}
	d.Records = b.String()
	d.Events = int(v.rig.V.Ev.Events.Load())
	v.rig.V.Del.mu.Lock()
	d.Msgs, d.Merged = len(v.rig.V.Del.Msgs), len(v.rig.V.Del.Merged)
	v.rig.V.Del.mu.Unlock()
	v.rig.V.mu.Lock()
	d.Conflict = len(v.rig.V.Conflicts)
	v.rig.V.mu.Unlock()
	return d
}

// emitted returns what V sent since the given marks (packets to peers, parsed).
func (v *victim) emittedSince(nx, ny int) (out []string) {
	for _, fp := range []*FakePeer{v.x, v.y} {
		n := nx
		if fp == v.y {
			n = ny
		}
		for _, p := range fp.Received()[n:] {
			if p.Info.Err != nil {
				out = append(out, "to-"+fp.Name+":unparsable")
				continue
			}
			for _, l := range p.Info.Leaves {
				out = append(out, fmt.Sprintf("to-%s:%s:%x", fp.Name, TypeName(l.Type), l.Body))
			}
		}
	}
	return
}

// decodableLeaves reports whether the oracle-side codec finds at least one
// complete, well-formed message in a raw packet under the victim's config.
func (v *victim) decodableLeaves(raw []byte) (any bool, why string) {
	rest, label, err := StripLabel(raw)
	if err != nil {
		return false, "label header malformed"
	}
	if v.cfg.Skip {
		if label != "" {
			return false, "label header although the outer layer strips it"
		}
		label = v.cfg.Label
	}
	if label != v.cfg.Label {
		return false, "label mismatch"
	}
	plain := rest
	if v.cfg.EncVsn >= 0 {
		res, err := Open([][]byte{v.k1, v.k2}, rest, []byte(label))
		switch {
		case err == nil && res.Vsn == 0 && !res.PadOK:
			return false, "authentic ciphertext but malformed padding"
		case err == nil:
			plain = res.Plain
		case v.cfg.Verify:
			return false, "does not authenticate"
		default:
			plain = rest // verification off: treated as cleartext
		}
	}
	pi := &PacketInfo{}
	body := plain
	if len(body) >= 5 && body[0] == THasCrc {
		pi2 := ParsePacket(append(LabelHeader(""), body...), nil)
		if pi2.Err != nil && pi2.HasCRC && !pi2.CRCOK {
			return false, "crc mismatch"
		}
		body = body[5:]
	}
	pi.walk(body, "", 0)
	for _, l := range pi.Leaves {
		if l.Type == TUser {
			return true, "user message"
		}
		if _, err := DecodeLeaf(l); err == nil {
			return true, TypeName(l.Type)
		}
	}
	return false, "no well-formed message inside"
}

// ---- mutators ----

type mutation struct {
	Class string
	Buf   []byte
}

// mutatePacket enumerates deterministic mutations of one genuine raw packet.
func mutatePacket(raw []byte, rng *rand.Rand, full bool) []mutation {
	var out []mutation
	add := func(class string, b []byte) { out = append(out, mutation{class, b}) }
	for cut := 0; cut < len(raw); cut++ {
		if full || cut < 40 || cut%7 == 0 || cut > len(raw)-20 {
			add("truncate", append([]byte(nil), raw[:cut]...))
		}
	}
	for i := 0; i < len(raw); i++ {
		if !full && i > 48 && i%5 != 0 && i < len(raw)-20 {
			continue
		}
		for _, f := range []func(byte) byte{func(b byte) byte { return ^b }, func(byte) byte { return 0 }, func(byte) byte { return 0xff }, func(b byte) byte { return b + 1 }} {
			m := append([]byte(nil), raw...)
			nb := f(m[i])
			if nb == m[i] {
				continue
			}
			m[i] = nb
			add("byte", m)
		}
	}
	if len(raw) <= 256 || full {
		for i := 0; i < len(raw)*8; i++ {
			m := append([]byte(nil), raw...)
			m[i/8] ^= 1 << (i % 8)
			add("bit", m)
		}
	}
	// type-byte sweep at the first byte after the label header
	off := 0
	if len(raw) > 2 && raw[0] == THasLabel {
		off = 2 + int(raw[1])
	}
	if off < len(raw) {
		for t := 0; t < 256; t++ {
			m := append([]byte(nil), raw...)
			m[off] = byte(t)
			add("type-sweep", m)
		}
	}
	for k := 0; k < 40; k++ {
		n := rng.Intn(200)
		b := make([]byte, n)
		rng.Read(b)
		add("random", b)
	}
	// doubled / foreign label headers
	add("label-doubled", append(LabelHeader("zz"), raw...))
	add("label-empty", append([]byte{THasLabel, 0}, raw...))
	add("label-truncated", []byte{THasLabel, 200, 1, 2, 3})
	return out
}

// hostilePlain builds structurally hostile plaintext messages (wrapped by the caller).
func hostilePlain(rng *rand.Rand) map[string][]byte {
	out := map[string][]byte{}
	// compound with lying headers
	out["compound-count-255-empty"] = []byte{TCompound, 255}
	out["compound-lengths-exceed"] = append([]byte{TCompound, 3, 0xff, 0xff, 0xff, 0xff, 0x00, 0x01}, []byte("abc")...)
	out["compound-zero-parts"] = []byte{TCompound, 0}
	// nested compounds up to packet size
	inner := append([]byte{TUser}, []byte("deep")...)
	for d := 0; d < 60; d++ {
		inner = MakeCompound([][]byte{inner})
	}
	out["compound-nested-60"] = inner
	// compress inside compound inside compress
	c := LZWCompress(MakeCompound([][]byte{LZWCompress(append([]byte{TUser}, []byte("zzz")...))}))
	out["compress-compound-compress"] = c
	// LZW bomb: 64 MiB of zeros compresses to ~100 KiB; use a smaller one for packets (still over the cap when doubled in thorough)
	out["compress-unknown-algo"] = Enc(TCompress, &WCompress{Algo: 9, Buf: []byte{1, 2, 3}})
	out["compress-garbage"] = Enc(TCompress, &WCompress{Algo: 0, Buf: []byte{0xff, 0xff, 0xff, 0xff}})
	out["compress-empty"] = Enc(TCompress, &WCompress{Algo: 0, Buf: nil})
	// msgpack edits
	out["alive-huge-str-header"] = []byte{TAlive, 0x86, 0xdb, 0xff, 0xff, 0xff, 0xff}
	out["alive-bin32-max"] = []byte{TAlive, 0x81, 0xa4, 'N', 'o', 'd', 'e', 0xc6, 0x7f, 0xff, 0xff, 0xff}
	out["ping-array-instead-of-map"] = []byte{TPing, 0xdd, 0xff, 0xff, 0xff, 0xff}
	out["suspect-map32-max"] = []byte{TSuspect, 0xdf, 0xff, 0xff, 0xff, 0xff}
	out["type-only-alive"] = []byte{TAlive}
	out["type-only-compound"] = []byte{TCompound}
	out["type-encrypt-in-clear"] = []byte{TEncrypt, 0, 0, 0, 1, 0}
	out["type-pushpull-on-packet"] = []byte{TPushPull, 0x83}
	out["type-err-on-packet"] = Enc(TErr, &WErr{Error: "boo"})
	out["type-label-inner"] = append(LabelHeader("inner"), Enc(TNack, &WNack{SeqNo: 1})...)
	out["crc-header-only"] = []byte{THasCrc, 0, 0, 0}
	out["crc-bad"] = append([]byte{THasCrc, 1, 2, 3, 4}, Enc(TNack, &WNack{SeqNo: 1})...)
	return out
}

func hx(b []byte) string {
	if len(b) > 3000 {
		return hex.EncodeToString(b[:3000]) + "..."
	}
	return hex.EncodeToString(b)
}

// diffDigest describes what changed between two digests.
func diffDigest(a, b vDigest) string {
	var out []string
	ra := map[string]string{}
	for _, r := range strings.Split(a.Records, ";") {
		if r != "" {
			ra[strings.SplitN(r, ":", 2)[0]] = r
		}
	}
	rb := map[string]string{}
	for _, r := range strings.Split(b.Records, ";") {
		if r != "" {
			rb[strings.SplitN(r, ":", 2)[0]] = r
		}
	}
	for n, r := range rb {
		if o, ok := ra[n]; !ok {
			out = append(out, fmt.Sprintf("record added %q", r))
		} else if o != r {
			out = append(out, fmt.Sprintf("record changed %q -> %q", o, r))
		}
	}
	for n, r := range ra {
		if _, ok := rb[n]; !ok {
			out = append(out, fmt.Sprintf("record removed %q", r))
		}
	}
	if a.Members != b.Members {
		out = append(out, fmt.Sprintf("members %d->%d", a.Members, b.Members))
	}
	if a.Events != b.Events {
		out = append(out, fmt.Sprintf("events %d->%d", a.Events, b.Events))
	}
	if a.Msgs != b.Msgs {
		out = append(out, fmt.Sprintf("NotifyMsg calls %d->%d", a.Msgs, b.Msgs))
	}
	if a.Merged != b.Merged {
		out = append(out, fmt.Sprintf("MergeRemoteState calls %d->%d", a.Merged, b.Merged))
	}
	if a.Queue != b.Queue {
		out = append(out, fmt.Sprintf("broadcast queue %d->%d", a.Queue, b.Queue))
	}
	if a.Health != b.Health {
		out = append(out, fmt.Sprintf("health %d->%d", a.Health, b.Health))
	}
	if a.Conflict != b.Conflict {
		out = append(out, fmt.Sprintf("conflicts %d->%d", a.Conflict, b.Conflict))
	}
	return strings.Join(out, "; ")
}
