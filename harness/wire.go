package harness

// Oracle-side codec for the memberlist wire format. Written independently of
// the repository's encode/decode/compound/crypto helpers (it shares only the
// msgpack library, the stdlib LZW, CRC32 and AES-GCM implementations). Used to
// inject claims, to classify every buffer seen on the transport tap, and to
// compute expected effects.

import (
	"bytes"
	"compress/lzw"
	"crypto/aes"
	"crypto/cipher"
	"encoding/binary"
	"errors"
	"fmt"
	"hash/crc32"
	"io"
	"math/rand"

	"github.com/hashicorp/go-msgpack/v2/codec"
)

// Message type bytes (protocol constants).
const (
	TPing         = 0
	TIndirectPing = 1
	TAck          = 2
	TSuspect      = 3
	TAlive        = 4
	TDead         = 5
	TPushPull     = 6
	TCompound     = 7
	TUser         = 8
	TCompress     = 9
	TEncrypt      = 10
	TNack         = 11
	THasCrc       = 12
	TErr          = 13
	THasLabel     = 244
)

var TypeNames = map[int]string{
	TPing: "ping", TIndirectPing: "indirectPing", TAck: "ack", TSuspect: "suspect",
	TAlive: "alive", TDead: "dead", TPushPull: "pushPull", TCompound: "compound",
	TUser: "user", TCompress: "compress", TEncrypt: "encrypt", TNack: "nack",
	THasCrc: "hasCrc", TErr: "err", THasLabel: "hasLabel",
}

func TypeName(t int) string {
	if n, ok := TypeNames[t]; ok {
		return n
	}
	return fmt.Sprintf("type%d", t)
}

// Node states on the wire.
const (
	SAlive   = 0
	SSuspect = 1
	SDead    = 2
	SLeft    = 3
)

var StateNames = []string{"alive", "suspect", "dead", "left"}

type WPing struct {
	SeqNo      uint32
	Node       string
	SourceAddr []byte `codec:",omitempty"`
	SourcePort uint16 `codec:",omitempty"`
	SourceNode string `codec:",omitempty"`
}

type WIndirectPing struct {
	SeqNo      uint32
	Target     []byte
	Port       uint16
	Node       string
	Nack       bool
	SourceAddr []byte `codec:",omitempty"`
	SourcePort uint16 `codec:",omitempty"`
	SourceNode string `codec:",omitempty"`
}

type WAck struct {
	SeqNo   uint32
	Payload []byte
}

type WNack struct {
	SeqNo uint32
}

type WErr struct {
	Error string
}

type WSuspect struct {
	Incarnation uint32
	Node        string
	From        string
}

type WAlive struct {
	Incarnation uint32
	Node        string
	Addr        []byte
	Port        uint16
	Meta        []byte
	Vsn         []uint8
}

type WDead struct {
	Incarnation uint32
	Node        string
	From        string
}

type WPushPullHeader struct {
	Nodes        int
	UserStateLen int
	Join         bool
}

type WUserMsgHeader struct {
	UserMsgLen int
}

type WPushNodeState struct {
	Name        string
	Addr        []byte
	Port        uint16
	Meta        []byte
	Incarnation uint32
	State       int
	Vsn         []uint8
}

type WCompress struct {
	Algo uint8
	Buf  []byte
}

func mpEncode(v any) []byte {
	var buf bytes.Buffer
	hd := codec.MsgpackHandle{}
	hd.TimeNotBuiltin = true
	if err := codec.NewEncoder(&buf, &hd).Encode(v); err != nil {
		panic(err)
	}
	return buf.Bytes()
}

func mpDecode(b []byte, v any) error {
	hd := codec.MsgpackHandle{}
	return codec.NewDecoder(bytes.NewReader(b), &hd).Decode(v)
}

// Enc returns [type byte] ++ msgpack(v).
func Enc(t int, v any) []byte {
	return append([]byte{byte(t)}, mpEncode(v)...)
}

// MakeCompound builds a compound message of up to 255 parts.
func MakeCompound(parts [][]byte) []byte {
	if len(parts) > 255 {
		panic("MakeCompound: more than 255 parts")
	}
	out := []byte{TCompound, byte(len(parts))}
	for _, p := range parts {
		if len(p) > 65535 {
			panic("MakeCompound: part too long")
		}
		out = binary.BigEndian.AppendUint16(out, uint16(len(p)))
	}
	for _, p := range parts {
		out = append(out, p...)
	}
	return out
}

// SplitCompound parses the body (after the type byte) of a compound message.
func SplitCompound(body []byte) (parts [][]byte, truncated int, err error) {
	if len(body) < 1 {
		return nil, 0, errors.New("compound: missing count")
	}
	n := int(body[0])
	body = body[1:]
	if len(body) < 2*n {
		return nil, 0, errors.New("compound: truncated length table")
	}
	lens := make([]int, n)
	for i := 0; i < n; i++ {
		lens[i] = int(binary.BigEndian.Uint16(body[2*i:]))
	}
	body = body[2*n:]
	for i, l := range lens {
		if len(body) < l {
			return parts, n - i, nil
		}
		parts = append(parts, body[:l])
		body = body[l:]
	}
	return parts, 0, nil
}

// LZWCompress wraps a message as a compress message.
func LZWCompress(msg []byte) []byte {
	var buf bytes.Buffer
	w := lzw.NewWriter(&buf, lzw.LSB, 8)
	_, _ = w.Write(msg)
	_ = w.Close()
	return Enc(TCompress, &WCompress{Algo: 0, Buf: buf.Bytes()})
}

// LZWDecompress undoes the body (after the type byte) of a compress message.
func LZWDecompress(body []byte, limit int64) ([]byte, error) {
	var c WCompress
	if err := mpDecode(body, &c); err != nil {
		return nil, err
	}
	if c.Algo != 0 {
		return nil, fmt.Errorf("unknown algo %d", c.Algo)
	}
	r := lzw.NewReader(bytes.NewReader(c.Buf), lzw.LSB, 8)
	defer r.Close()
	var out bytes.Buffer
	n, err := io.CopyN(&out, r, limit+1)
	if err != nil && err != io.EOF {
		return nil, err
	}
	if n > limit {
		return nil, errors.New("decompressed data over limit")
	}
	return out.Bytes(), nil
}

// LabelHeader returns the cleartext label header.
func LabelHeader(label string) []byte {
	if label == "" {
		return nil
	}
	out := []byte{THasLabel, byte(len(label))}
	return append(out, label...)
}

// StripLabel removes a label header from a packet, if present.
func StripLabel(buf []byte) (rest []byte, label string, err error) {
	if len(buf) == 0 || buf[0] != THasLabel {
		return buf, "", nil
	}
	if len(buf) < 2 {
		return nil, "", errors.New("label: truncated")
	}
	n := int(buf[1])
	if n == 0 {
		return nil, "", errors.New("label: empty")
	}
	if len(buf) < 2+n {
		return nil, "", errors.New("label: truncated")
	}
	return buf[2+n:], string(buf[2 : 2+n]), nil
}

// AddCRC prepends the CRC header.
func AddCRC(msg []byte) []byte {
	out := make([]byte, 5, 5+len(msg))
	out[0] = THasCrc
	binary.BigEndian.PutUint32(out[1:], crc32.ChecksumIEEE(msg))
	return append(out, msg...)
}

// Seal produces [vsn][nonce][ciphertext||tag]. vsn 0 pads with PKCS#7.
func Seal(vsn int, key, plain, aad []byte, rng *rand.Rand) []byte {
	blk, err := aes.NewCipher(key)
	if err != nil {
		panic(err)
	}
	gcm, err := cipher.NewGCM(blk)
	if err != nil {
		panic(err)
	}
	nonce := make([]byte, 12)
	for i := range nonce {
		nonce[i] = byte(rng.Intn(256))
	}
	src := plain
	if vsn == 0 {
		pad := 16 - len(plain)%16
		src = append(append([]byte(nil), plain...), bytes.Repeat([]byte{byte(pad)}, pad)...)
	}
	out := append([]byte{byte(vsn)}, nonce...)
	return gcm.Seal(out, nonce, src, aad)
}

// OpenResult describes how a sealed buffer opened.
type OpenResult struct {
	Vsn      int
	KeyIndex int
	Raw      []byte // plaintext as authenticated (before unpadding)
	Plain    []byte // after removing the v0 padding
	PadOK    bool   // v0: padding well-formed
}

// Open tries each key in order.
func Open(keys [][]byte, buf, aad []byte) (*OpenResult, error) {
	if len(buf) < 1+12+16 {
		return nil, errors.New("sealed: too short")
	}
	vsn := int(buf[0])
	if vsn > 1 {
		return nil, fmt.Errorf("sealed: version %d", vsn)
	}
	for i, key := range keys {
		blk, err := aes.NewCipher(key)
		if err != nil {
			continue
		}
		gcm, err := cipher.NewGCM(blk)
		if err != nil {
			continue
		}
		raw, err := gcm.Open(nil, buf[1:13], buf[13:], aad)
		if err != nil {
			continue
		}
		res := &OpenResult{Vsn: vsn, KeyIndex: i, Raw: raw, Plain: raw, PadOK: true}
		if vsn == 0 {
			res.PadOK = false
			if n := len(raw); n > 0 {
				p := int(raw[n-1])
				if p >= 1 && p <= 16 && p <= n {
					ok := true
					for _, b := range raw[n-p:] {
						if int(b) != p {
							ok = false
						}
					}
					if ok {
						res.PadOK = true
						res.Plain = raw[:n-p]
					}
				}
			}
		}
		return res, nil
	}
	return nil, errors.New("sealed: no key opens it")
}

// PacketCfg describes how a fake peer wraps an outgoing packet.
type PacketCfg struct {
	Label    string
	Key      []byte // nil = cleartext
	EncVsn   int
	Compress bool
	CRC      bool
}

// BuildPacket wraps msg (a complete message starting with its type byte).
func BuildPacket(c PacketCfg, msg []byte, rng *rand.Rand) []byte {
	if c.Compress {
		msg = LZWCompress(msg)
	}
	if c.CRC {
		msg = AddCRC(msg)
	}
	if c.Key != nil {
		msg = Seal(c.EncVsn, c.Key, msg, []byte(c.Label), rng)
	}
	return append(LabelHeader(c.Label), msg...)
}

// Leaf is one innermost message found in a packet.
type Leaf struct {
	Type int
	Body []byte // after the type byte
	Path string // nesting, e.g. "crc/compound/compress"
}

// PacketInfo is the oracle-side classification of a raw packet.
type PacketInfo struct {
	Label     string
	Sealed    bool
	EncVsn    int
	KeyIndex  int
	PadOK     bool
	HasCRC    bool
	CRCOK     bool
	Plain     []byte // after label removal and decryption
	Leaves    []Leaf
	Truncated int
	Err       error // first structural problem found (nil = well formed)
}

// ParsePacket classifies a raw buffer as seen on the transport. keys==nil
// means the observer expects cleartext.
func ParsePacket(raw []byte, keys [][]byte) *PacketInfo {
	pi := &PacketInfo{KeyIndex: -1, PadOK: true}
	rest, label, err := StripLabel(raw)
	if err != nil {
		pi.Err = err
		return pi
	}
	pi.Label = label
	if len(keys) > 0 {
		res, err := Open(keys, rest, []byte(label))
		if err != nil {
			pi.Err = err
			pi.Plain = rest
			return pi
		}
		pi.Sealed, pi.EncVsn, pi.KeyIndex, pi.PadOK = true, res.Vsn, res.KeyIndex, res.PadOK
		rest = res.Plain
	}
	pi.Plain = rest
	path := ""
	if len(rest) >= 5 && rest[0] == THasCrc {
		pi.HasCRC = true
		pi.CRCOK = crc32.ChecksumIEEE(rest[5:]) == binary.BigEndian.Uint32(rest[1:5])
		if !pi.CRCOK {
			pi.Err = errors.New("crc mismatch")
			return pi
		}
		rest = rest[5:]
		path = "crc"
	}
	pi.walk(rest, path, 0)
	return pi
}

func (pi *PacketInfo) walk(msg []byte, path string, depth int) {
	if len(msg) < 1 {
		if pi.Err == nil {
			pi.Err = errors.New("empty message")
		}
		return
	}
	if depth > 300 {
		if pi.Err == nil {
			pi.Err = errors.New("nesting too deep for oracle")
		}
		return
	}
	t := int(msg[0])
	sub := func(s string) string {
		if path == "" {
			return s
		}
		return path + "/" + s
	}
	switch t {
	case TCompound:
		parts, trunc, err := SplitCompound(msg[1:])
		if err != nil {
			if pi.Err == nil {
				pi.Err = err
			}
			return
		}
		pi.Truncated += trunc
		for _, p := range parts {
			pi.walk(p, sub("compound"), depth+1)
		}
	case TCompress:
		d, err := LZWDecompress(msg[1:], 40*1024*1024)
		if err != nil {
			if pi.Err == nil {
				pi.Err = err
			}
			return
		}
		pi.walk(d, sub("compress"), depth+1)
	default:
		pi.Leaves = append(pi.Leaves, Leaf{Type: t, Body: msg[1:], Path: path})
	}
}

// DecodeLeaf decodes a leaf body into the mirror struct for its type.
func DecodeLeaf(l Leaf) (any, error) {
	var v any
	switch l.Type {
	case TPing:
		v = &WPing{}
	case TIndirectPing:
		v = &WIndirectPing{}
	case TAck:
		v = &WAck{}
	case TNack:
		v = &WNack{}
	case TSuspect:
		v = &WSuspect{}
	case TAlive:
		v = &WAlive{}
	case TDead:
		v = &WDead{}
	case TErr:
		v = &WErr{}
	case TUser:
		return l.Body, nil
	default:
		return nil, fmt.Errorf("leaf type %d", l.Type)
	}
	if err := mpDecode(l.Body, v); err != nil {
		return nil, err
	}
	return v, nil
}

// BuildPushPull builds the plaintext push/pull message.
func BuildPushPull(join bool, nodes []WPushNodeState, user []byte) []byte {
	var buf bytes.Buffer
	buf.WriteByte(TPushPull)
	hd := codec.MsgpackHandle{}
	enc := codec.NewEncoder(&buf, &hd)
	_ = enc.Encode(&WPushPullHeader{Nodes: len(nodes), UserStateLen: len(user), Join: join})
	for i := range nodes {
		_ = enc.Encode(&nodes[i])
	}
	buf.Write(user)
	return buf.Bytes()
}

// ParsePushPull parses a plaintext push/pull body (after the type byte).
func ParsePushPull(body []byte) (hdr WPushPullHeader, nodes []WPushNodeState, user []byte, err error) {
	r := bytes.NewReader(body)
	hd := codec.MsgpackHandle{}
	dec := codec.NewDecoder(r, &hd)
	if err = dec.Decode(&hdr); err != nil {
		return
	}
	if hdr.Nodes < 0 || hdr.Nodes > 1<<20 {
		err = fmt.Errorf("nodes %d", hdr.Nodes)
		return
	}
	nodes = make([]WPushNodeState, hdr.Nodes)
	for i := range nodes {
		if err = dec.Decode(&nodes[i]); err != nil {
			return
		}
	}
	if hdr.UserStateLen < 0 || hdr.UserStateLen > r.Len() {
		err = fmt.Errorf("user state %d > remaining %d", hdr.UserStateLen, r.Len())
		return
	}
	user = make([]byte, hdr.UserStateLen)
	_, err = io.ReadFull(r, user)
	return
}

// BuildUserStream builds the plaintext reliable user message.
func BuildUserStream(payload []byte) []byte {
	out := []byte{TUser}
	out = append(out, mpEncode(&WUserMsgHeader{UserMsgLen: len(payload)})...)
	return append(out, payload...)
}

// StreamCfg describes how a fake peer frames stream messages.
type StreamCfg struct {
	Label    string
	Key      []byte
	EncVsn   int
	Compress bool
}

// BuildStreamMsg frames one stream message (without the label header, which
// is written once per connection).
func BuildStreamMsg(c StreamCfg, msg []byte, rng *rand.Rand) []byte {
	if c.Compress {
		msg = LZWCompress(msg)
	}
	if c.Key == nil {
		return msg
	}
	clen := 1 + 12 + len(msg) + 16
	if c.EncVsn == 0 {
		clen += 16 - len(msg)%16
	}
	hdr := []byte{TEncrypt, 0, 0, 0, 0}
	binary.BigEndian.PutUint32(hdr[1:], uint32(clen))
	aad := append(append([]byte(nil), hdr...), c.Label...)
	return append(hdr, Seal(c.EncVsn, c.Key, msg, aad, rng)...)
}

// StreamFrame is one parsed stream message.
type StreamFrame struct {
	Sealed   bool
	EncVsn   int
	KeyIndex int
	PadOK    bool
	Type     int    // innermost type (after decrypt and decompress)
	Body     []byte // after the type byte
	Comp     bool
	Raw      int // raw bytes consumed
}

// ParseStream parses the raw bytes one side wrote on a connection:
// optional label header followed by frames. With keys, every frame must be an
// encrypt frame; anything else is reported in err together with the frames
// parsed so far.
func ParseStream(raw []byte, keys [][]byte, aadLabel ...string) (label string, frames []StreamFrame, err error) {
	rest := raw
	if len(rest) > 0 && rest[0] == THasLabel {
		var r2 []byte
		r2, label, err = StripLabel(rest)
		if err != nil {
			return
		}
		rest = r2
	}
	for len(rest) > 0 {
		var f StreamFrame
		var plain []byte
		if rest[0] == TEncrypt {
			if len(rest) < 5 {
				err = errors.New("stream: truncated encrypt header")
				return
			}
			n := int(binary.BigEndian.Uint32(rest[1:5]))
			if len(rest) < 5+n {
				err = errors.New("stream: truncated ciphertext")
				return
			}
			if len(keys) == 0 {
				err = errors.New("stream: encrypted frame but no keys")
				return
			}
			al := label
			if label == "" && len(aadLabel) > 0 {
				// the accepting side writes no header but still binds the stream's label
				al = aadLabel[0]
			}
			aad := append(append([]byte(nil), rest[:5]...), al...)
			res, e := Open(keys, rest[5:5+n], aad)
			if e != nil {
				err = fmt.Errorf("stream: %v", e)
				return
			}
			f.Sealed, f.EncVsn, f.KeyIndex, f.PadOK = true, res.Vsn, res.KeyIndex, res.PadOK
			plain = res.Plain
			f.Raw = 5 + n
			rest = rest[5+n:]
		} else {
			if len(keys) > 0 {
				err = fmt.Errorf("stream: cleartext frame type %d (%d bytes) while keys are configured", rest[0], len(rest))
				return
			}
			// A cleartext frame has no length prefix: it extends to the end of
			// what this side wrote (memberlist writes one message per turn).
			plain = rest
			f.Raw = len(rest)
			rest = nil
		}
		if len(plain) == 0 {
			err = errors.New("stream: empty plaintext")
			return
		}
		if plain[0] == TCompress {
			var d []byte
			// the compress struct may be followed by nothing else
			d, e := LZWDecompress(plain[1:], 64*1024*1024)
			if e != nil {
				err = fmt.Errorf("stream: %v", e)
				return
			}
			if len(d) == 0 {
				err = errors.New("stream: empty decompressed")
				return
			}
			f.Comp = true
			plain = d
		}
		f.Type = int(plain[0])
		f.Body = plain[1:]
		frames = append(frames, f)
	}
	return
}
