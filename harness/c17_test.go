package harness

// C17 — keyring integrity (sequential model, aliasing monitor, concurrent
// linearizability + race detector) and cluster key rotation.

import (
	"bytes"
	"fmt"
	"math/rand"
	"sort"
	"strings"
	"sync"
	"sync/atomic"
	"testing"
	"time"

	"github.com/anishathalye/porcupine"
	"github.com/hashicorp/memberlist"
)

var c17keys = map[string][]byte{
	"k16a":  bytes.Repeat([]byte{0xa1}, 16),
	"k16b":  bytes.Repeat([]byte{0xb2}, 16),
	"k24":   bytes.Repeat([]byte{0xc3}, 24),
	"k32":   bytes.Repeat([]byte{0xd4}, 32),
	"bad15": bytes.Repeat([]byte{0xe5}, 15),
	"bad17": bytes.Repeat([]byte{0xf6}, 17),
	"empty": {},
	"nil":   nil,
}

var c17keyNames = []string{"k16a", "k16b", "k24", "k32", "bad15", "bad17", "empty", "nil"}

func validKey(k []byte) bool { return len(k) == 16 || len(k) == 24 || len(k) == 32 }

type krModel struct{ keys []string } // names, primary first

func (m *krModel) has(n string) bool {
	for _, k := range m.keys {
		if k == n {
			return true
		}
	}
	return false
}

type c17op struct {
	Op   string   `json:"op"`
	Key  string   `json:"key,omitempty"`
	Keys []string `json:"keys,omitempty"`
}

func keyName(b []byte) string {
	for n, k := range c17keys {
		if len(k) > 0 && bytes.Equal(k, b) {
			return n
		}
	}
	return fmt.Sprintf("?%x", b)
}

func namesOf(keys [][]byte) []string {
	out := make([]string, len(keys))
	for i, k := range keys {
		out[i] = keyName(k)
	}
	return out
}

type heldList struct {
	slice [][]byte
	copy  [][]byte
	atOp  int
}

func deepCopy(keys [][]byte) [][]byte {
	out := make([][]byte, len(keys))
	for i, k := range keys {
		out[i] = append([]byte(nil), k...)
	}
	return out
}

func sameLists(a, b [][]byte) bool {
	if len(a) != len(b) {
		return false
	}
	for i := range a {
		if !bytes.Equal(a[i], b[i]) {
			return false
		}
	}
	return true
}

// applyModel applies op to the model; wantErr: 1 must error, 0 must not, -1 unconstrained.
func (m *krModel) apply(op c17op) (wantErr int) {
	switch op.Op {
	case "add":
		if !validKey(c17keys[op.Key]) {
			return 1
		}
		if !m.has(op.Key) {
			m.keys = append(m.keys, op.Key)
		}
		return 0
	case "use":
		if !m.has(op.Key) {
			return 1
		}
		rest := []string{op.Key}
		for _, k := range m.keys {
			if k != op.Key {
				rest = append(rest, k)
			}
		}
		m.keys = rest
		return 0
	case "remove":
		if len(m.keys) == 0 {
			return -1
		}
		if m.keys[0] == op.Key {
			return 1
		}
		var rest []string
		for _, k := range m.keys {
			if k != op.Key {
				rest = append(rest, k)
			}
		}
		m.keys = rest
		return 0
	}
	return 0
}

func runC17seq(ops []c17op) (key, what string) {
	var ring *memberlist.Keyring
	model := &krModel{}
	var held []heldList
	for i, op := range ops {
		var perr any
		var err error
		wantErr := 0
		if ring == nil && op.Op != "new" {
			continue // every constructor so far was (rightly) refused
		}
		func() {
			defer func() { perr = recover() }()
			switch op.Op {
			case "new":
				var ks [][]byte
				for _, n := range op.Keys {
					ks = append(ks, c17keys[n])
				}
				prim := c17keys[op.Key]
				nm := &krModel{}
				if len(ks) > 0 || len(prim) > 0 {
					if len(prim) == 0 || !validKey(prim) {
						wantErr = 1
					} else {
						nm.keys = []string{op.Key}
						for _, n := range op.Keys {
							if !validKey(c17keys[n]) {
								wantErr = 1
								break
							}
							if !nm.has(n) {
								nm.keys = append(nm.keys, n)
							}
						}
					}
				}
				var r *memberlist.Keyring
				r, err = memberlist.NewKeyring(ks, prim)
				if err == nil && wantErr == 0 {
					ring, model = r, nm
				}
				if err == nil && wantErr == 1 {
					ring = r // judged below
				}
			case "add":
				wantErr = model.apply(op)
				err = ring.AddKey(c17keys[op.Key])
			case "use":
				wantErr = model.apply(op)
				err = ring.UseKey(c17keys[op.Key])
			case "remove":
				wantErr = model.apply(op)
				err = ring.RemoveKey(c17keys[op.Key])
			case "get":
				ks := ring.GetKeys()
				held = append(held, heldList{ks, deepCopy(ks), i})
			case "primary":
				p := ring.GetPrimaryKey()
				if len(model.keys) == 0 {
					if p != nil {
						err = fmt.Errorf("primary of empty ring = %x", p)
						wantErr = 0
					}
				} else if !bytes.Equal(p, c17keys[model.keys[0]]) {
					err = fmt.Errorf("primary = %s, model %s", keyName(p), model.keys[0])
					wantErr = 0
				}
			}
		}()
		if perr != nil {
			return "C17/panic/" + op.Op, fmt.Sprintf("op %d %+v panicked: %v", i, op, perr)
		}
		if wantErr == 1 && err == nil {
			return "C17/accepted/" + op.Op, fmt.Sprintf("op %d %+v succeeded but must be refused", i, op)
		}
		if wantErr == 0 && err != nil {
			return "C17/refused/" + op.Op, fmt.Sprintf("op %d %+v failed: %v", i, op, err)
		}
		if ring == nil {
			continue
		}
		// state comparison
		got := ring.GetKeys()
		gn := namesOf(got)
		if len(model.keys) == 0 {
			if len(got) != 0 {
				return "C17/state/" + op.Op, fmt.Sprintf("after op %d %+v: ring %v, model empty", i, op, gn)
			}
		} else {
			if len(got) == 0 || gn[0] != model.keys[0] {
				return "C17/state/primary-not-first/" + op.Op, fmt.Sprintf("after op %d %+v: ring %v, model %v (primary first)", i, op, gn, model.keys)
			}
			a := append([]string(nil), gn...)
			b := append([]string(nil), model.keys...)
			sort.Strings(a)
			sort.Strings(b)
			if fmt.Sprint(a) != fmt.Sprint(b) {
				return "C17/state/" + op.Op, fmt.Sprintf("after op %d %+v: ring %v, model %v", i, op, gn, model.keys)
			}
		}
		seen := map[string]bool{}
		for _, k := range got {
			if !validKey(k) {
				return "C17/state/invalid-key-installed", fmt.Sprintf("after op %d: invalid-length key installed: %v", i, gn)
			}
			if seen[string(k)] {
				return "C17/state/duplicate", fmt.Sprintf("after op %d: duplicate key installed: %v", i, gn)
			}
			seen[string(k)] = true
		}
		for _, h := range held {
			if !sameLists(h.slice, h.copy) {
				return "C17/alias/" + op.Op, fmt.Sprintf("op %d %+v altered the key list returned by GetKeys at op %d: was %v, now %v", i, op, h.atOp, namesOf(h.copy), namesOf(h.slice))
			}
		}
	}
	return "", ""
}

func genC17(rng *rand.Rand, n int) []c17op {
	pick := func() string {
		if rng.Intn(100) < 80 {
			return c17keyNames[rng.Intn(4)]
		}
		return c17keyNames[rng.Intn(len(c17keyNames))]
	}
	var ops []c17op
	// constructor
	switch rng.Intn(4) {
	case 0:
		ops = append(ops, c17op{Op: "new"}) // empty ring
	case 1:
		ops = append(ops, c17op{Op: "new", Key: pick()})
	default:
		var ks []string
		for i := rng.Intn(4); i > 0; i-- {
			ks = append(ks, pick())
		}
		ops = append(ops, c17op{Op: "new", Key: pick(), Keys: ks})
	}
	for i := 0; i < n; i++ {
		switch r := rng.Intn(100); {
		case r < 25:
			ops = append(ops, c17op{Op: "add", Key: pick()})
		case r < 45:
			ops = append(ops, c17op{Op: "use", Key: pick()})
		case r < 70:
			ops = append(ops, c17op{Op: "remove", Key: pick()})
		case r < 90:
			ops = append(ops, c17op{Op: "get"})
		default:
			ops = append(ops, c17op{Op: "primary"})
		}
	}
	return ops
}

func c17Scripted() map[string][]c17op {
	return map[string][]c17op{
		"remove-on-empty":          {{Op: "new"}, {Op: "remove", Key: "k16a"}, {Op: "get"}, {Op: "add", Key: "k16a"}, {Op: "primary"}},
		"remove-middle-while-held": {{Op: "new", Key: "k16a", Keys: []string{"k16b", "k24", "k32"}}, {Op: "get"}, {Op: "remove", Key: "k16b"}, {Op: "get"}, {Op: "remove", Key: "k24"}, {Op: "primary"}},
		"remove-primary":           {{Op: "new", Key: "k16a", Keys: []string{"k16b"}}, {Op: "remove", Key: "k16a"}, {Op: "use", Key: "k16b"}, {Op: "remove", Key: "k16b"}, {Op: "remove", Key: "k16a"}, {Op: "get"}},
		"use-uninstalled":          {{Op: "new", Key: "k16a"}, {Op: "use", Key: "k24"}, {Op: "primary"}, {Op: "add", Key: "k24"}, {Op: "use", Key: "k24"}, {Op: "primary"}},
		"invalid-lengths":          {{Op: "new", Key: "k16a"}, {Op: "add", Key: "bad15"}, {Op: "add", Key: "bad17"}, {Op: "add", Key: "empty"}, {Op: "add", Key: "nil"}, {Op: "use", Key: "bad15"}, {Op: "get"}},
		"duplicate-add":            {{Op: "new", Key: "k16a", Keys: []string{"k16a", "k16b", "k16b"}}, {Op: "add", Key: "k16a"}, {Op: "add", Key: "k16b"}, {Op: "get"}},
		"new-invalid":              {{Op: "new", Key: "bad15"}, {Op: "new", Key: "empty", Keys: []string{"k16a"}}, {Op: "new", Key: "k16a", Keys: []string{"bad17"}}, {Op: "new", Key: "k32"}, {Op: "get"}},
	}
}

type krIn struct {
	Op  string
	Key string
}

type krOut struct {
	Err  bool
	Keys string // for get: primary + "|" + sorted rest
}

func krEnc(names []string) string {
	if len(names) == 0 {
		return ""
	}
	rest := append([]string(nil), names[1:]...)
	sort.Strings(rest)
	return strings.Join(append([]string{names[0]}, rest...), ",")
}

func krSnapshot(keys [][]byte) string { return krEnc(namesOf(keys)) }

func c17Concurrent(t *testing.T, run *Run, rounds int) {
	for round := 0; round < rounds; round++ {
		if !run.Mine(round) {
			continue
		}
		id := fmt.Sprintf("conc/%d", round)
		if !run.Want(id) {
			continue
		}
		run.Journal(id, "")
		ring, _ := memberlist.NewKeyring([][]byte{c17keys["k16b"], c17keys["k24"]}, c17keys["k16a"])
		var mu sync.Mutex
		var ops []porcupine.Operation
		var clock atomic.Int64
		var wg sync.WaitGroup
		var torn atomic.Int64
		stop := make(chan struct{})
		valid := []string{"k16a", "k16b", "k24", "k32"}
		// readers iterate the returned list the way decryptPayload does
		for rdr := 0; rdr < 2; rdr++ {
			wg.Add(1)
			go func() {
				defer wg.Done()
				for {
					select {
					case <-stop:
						return
					default:
					}
					ks := ring.GetKeys()
					first := deepCopy(ks)
					for i := 0; i < 20; i++ {
						if !sameLists(ks, first) {
							torn.Add(1)
							break
						}
					}
				}
			}()
		}
		var wg2 sync.WaitGroup
		for p := 0; p < 6; p++ {
			wg2.Add(1)
			go func(p int) {
				defer wg2.Done()
				rng := rand.New(rand.NewSource(run.Seed()*7919 + int64(round*16+p)))
				for i := 0; i < 40; i++ {
					k := valid[rng.Intn(len(valid))]
					var in krIn
					var out krOut
					c := clock.Add(1)
					switch rng.Intn(4) {
					case 0:
						in = krIn{"add", k}
						out.Err = ring.AddKey(c17keys[k]) != nil
					case 1:
						in = krIn{"use", k}
						out.Err = ring.UseKey(c17keys[k]) != nil
					case 2:
						in = krIn{"remove", k}
						out.Err = ring.RemoveKey(c17keys[k]) != nil
					default:
						in = krIn{"get", ""}
						out.Keys = krSnapshot(deepCopy(ring.GetKeys()))
					}
					r := clock.Add(1)
					mu.Lock()
					ops = append(ops, porcupine.Operation{ClientId: p, Input: in, Call: c, Output: out, Return: r})
					mu.Unlock()
				}
			}(p)
		}
		wg2.Wait()
		close(stop)
		wg.Wait()
		run.Eval(1)
		run.Cell("concurrent|6-writers-2-readers")
		run.Count("concurrent_ops", int64(len(ops)))
		if torn.Load() > 0 {
			run.Violation(id, "C17/alias/concurrent", fmt.Sprintf("a key list returned by GetKeys changed under the reader %d times", torn.Load()), map[string]any{"round": round})
		}
		model := porcupine.Model{
			Init: func() any { return krEnc([]string{"k16a", "k16b", "k24"}) },
			Step: func(st, in, out any) (bool, any) {
				s := st.(string)
				m := &krModel{}
				if s != "" {
					m.keys = strings.Split(s, ",")
				}
				i := in.(krIn)
				o := out.(krOut)
				if i.Op == "get" {
					return o.Keys == s, s
				}
				want := m.apply(c17op{Op: i.Op, Key: i.Key})
				if want == 1 && !o.Err || want == 0 && o.Err {
					return false, s
				}
				return true, krEnc(m.keys)
			},
		}
		res := porcupine.CheckOperationsTimeout(model, ops, 90*time.Second)
		switch res {
		case porcupine.Illegal:
			run.Violation(id, "C17/concurrent/linearizability", "keyring history is not linearizable against the sequential keyring model", map[string]any{"round": round, "ops": len(ops)})
		case porcupine.Unknown:
			run.Count("porcupine_timeouts", 1)
			run.Note("porcupine timeout in round %d", round)
		default:
			run.Count("porcupine_ok", 1)
		}
	}
}

func TestC17(t *testing.T) {
	run := NewRun(t, "C17", "exploration",
		"(1) PRNG and scripted NewKeyring/AddKey/UseKey/RemoveKey/GetKeys/GetPrimaryKey sequences over {16,16,24,32-byte, 15, 17, empty, nil} keys in lock-step with a reference keyring (primary first, set equality of the rest, error iff model errors, no duplicates/invalid lengths, every list ever returned by GetKeys still unchanged, no panic); (2) 6 writer + 2 reader goroutines under the race detector, history checked with porcupine against the same model, returned lists watched for tearing; (3) cluster key rotation in virtual time, pairwise traffic probe after every single node step. Cells: op bigram x ring size (sequential), scripted corner, concurrent round, rotation phase x step.")
	defer run.Finish()
	run.Assume("reference keyring model written from the statement; order of non-primary keys is not constrained", "RemoveKey on an empty ring may return nil or an error but must not panic")
	for name, ops := range c17Scripted() {
		id := "scripted/" + name
		if run.Mine(0) || run.Replaying() {
			run.Require("scripted|" + name)
		}
		if !run.Want(id) || !run.Mine(0) {
			continue
		}
		run.Journal(id, "")
		run.Eval(1)
		run.Cell("scripted|" + name)
		if key, what := runC17seq(ops); key != "" {
			run.Violation(id, key, what, ops)
		}
	}
	n := run.Pick(12000, 6000000)
	for i := 0; i < n; i++ {
		if !run.Mine(i) {
			continue
		}
		id := fmt.Sprintf("rand/%d", i)
		if !run.Want(id) {
			continue
		}
		rng := run.RNG(id)
		ops := genC17(rng, 8+rng.Intn(40))
		run.Eval(1)
		prev := "start"
		for _, o := range ops {
			run.Cell("seq", prev+">"+o.Op)
			prev = o.Op
		}
		if key, what := runC17seq(ops); key != "" {
			run.Violation(id, key, what, ops)
		}
		if i == 0 {
			run.Sample(ops)
		}
	}
	if !run.Replaying() || run.Want("conc/0") {
		c17Concurrent(t, run, run.Pick(16, 3000))
	}
	c17Rotation(t, run)
	run.Complete()
	if run.Violations() > 0 {
		t.Errorf("%d violation(s)", run.Violations())
	}
}
