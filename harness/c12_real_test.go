package harness

// C12, real-socket part: the stock NetTransport's receive path. A burst of distinct best-effort user
// messages arrives while the application's delegate is busy; every payload that reaches the delegate
// afterwards must be one that was sent, and none may arrive twice (the messages wait in the hand-off
// queue, which only holds references into the transport's read buffers).

import (
	"fmt"
	"io"
	"log"
	"strings"
	"sync"
	"time"

	"github.com/hashicorp/memberlist"
)

type burstDelegate struct {
	mu      sync.Mutex
	got     map[string]int
	gate    chan struct{}
	entered chan struct{}
	first   bool
}

func (d *burstDelegate) NodeMeta(int) []byte { return nil }
func (d *burstDelegate) NotifyMsg(b []byte) {
	d.mu.Lock()
	d.got[string(b)]++
	first := !d.first
	d.first = true
	d.mu.Unlock()
	if first {
		close(d.entered)
		<-d.gate
	}
}
func (d *burstDelegate) GetBroadcasts(int, int) [][]byte   { return nil }
func (d *burstDelegate) LocalState(join bool) []byte       { return nil }
func (d *burstDelegate) MergeRemoteState(b []byte, j bool) {}

func runC12RealBurst(run *Run, iter int, n int) (out []*c01Result) {
	fail := func(key, f string, a ...any) {
		out = append(out, &c01Result{"C12/real/" + key, fmt.Sprintf(f, a...)})
	}
	mk := func(name string, d memberlist.Delegate) (*memberlist.Memberlist, error) {
		cf := memberlist.DefaultLocalConfig()
		cf.Name = name
		cf.BindAddr = "127.0.0.1"
		cf.BindPort = 0
		cf.AdvertisePort = 0
		cf.PushPullInterval = 0
		cf.EnableCompression = false
		cf.ProbeInterval = time.Hour
		cf.GossipInterval = time.Hour
		cf.Logger = log.New(io.Discard, "", 0)
		cf.Delegate = d
		return memberlist.Create(cf)
	}
	d := &burstDelegate{got: map[string]int{}, gate: make(chan struct{}), entered: make(chan struct{})}
	B, err := mk(fmt.Sprintf("burst-b-%d", iter), d)
	if err != nil {
		fail("harness/create", "%v", err)
		return
	}
	defer B.Shutdown()
	A, err := mk(fmt.Sprintf("burst-a-%d", iter), nil)
	if err != nil {
		fail("harness/create", "%v", err)
		return
	}
	defer A.Shutdown()
	to := memberlist.Address{Addr: B.LocalNode().Address(), Name: B.LocalNode().Name}
	sent := map[string]bool{}
	// (n >= 900: more than a megabyte arrives while the first messages still wait for the application)
	filler := ""
	if n >= 900 {
		filler = strings.Repeat("-filler-0123456789", 66)
	}
	send := func(i int) {
		p := fmt.Sprintf("burst-%d-message-%04d-%s", iter, i, "0123456789abcdef0123456789abcdef"[:8+i%24])
		if filler != "" {
			p += fmt.Sprintf("%s-%04d", filler, i)
		}
		sent[p] = true
		_ = A.SendToAddress(to, []byte(p))
	}
	send(0)
	select {
	case <-d.entered:
	case <-time.After(3 * time.Second):
		close(d.gate)
		run.Count("real_iterations_skipped_udp_lost", 1)
		return
	}
	for i := 1; i <= n; i++ {
		send(i)
		if i%10 == 0 {
			time.Sleep(2 * time.Millisecond)
		}
	}
	time.Sleep(200 * time.Millisecond)
	close(d.gate)
	// wait until the deliveries stop
	last, stable := -1, 0
	for k := 0; k < 200 && stable < 5; k++ {
		time.Sleep(20 * time.Millisecond)
		d.mu.Lock()
		cur := len(d.got)
		d.mu.Unlock()
		if cur == last {
			stable++
		} else {
			stable, last = 0, cur
		}
	}
	d.mu.Lock()
	defer d.mu.Unlock()
	arrived := 0
	for p, c := range d.got {
		if !sent[p] {
			fail("user-lost-or-changed/burst", "the delegate received a payload that was never sent: %q (burst of %d best-effort messages while the delegate was busy)", p, n)
			return
		}
		if c > 1 {
			fail("user-lost-or-changed/burst", "payload %q reached the delegate %d times although it was sent once (burst of %d best-effort messages while the delegate was busy; %d distinct payloads arrived)", p, c, n, len(d.got))
			return
		}
		arrived++
	}
	run.Eval(1)
	run.Cell("real-burst", fmt.Sprintf("n=%d", n))
	run.Count("real_burst_sent", int64(len(sent)))
	run.Count("real_burst_arrived_intact", int64(arrived))
	if arrived < len(sent)/2 {
		run.Count("real_burst_iterations_with_heavy_udp_loss", 1)
	}
	return
}
