package harness

// C08, real-time part: interleavings in which one API call waits for a lock another one holds while that one waits
// for a timer or an application callback. Such waits cannot be hosted by a virtual-time bubble (it never becomes
// idle), so these scenarios run the simulated network on the real clock. Nothing here decides on elapsed time:
// the oracles compare orders of events; waiting is bounded by generous watchdogs whose expiry is inconclusive.

import (
	"fmt"
	"sync"
	"sync/atomic"
	"time"

	"github.com/hashicorp/memberlist"
)

func waitUntil(d time.Duration, cond func() bool) bool {
	deadline := time.Now().Add(d)
	for time.Now().Before(deadline) {
		if cond() {
			return true
		}
		time.Sleep(2 * time.Millisecond)
	}
	return cond()
}

// runC08Overlap returns (violations, inconclusive reason).
func runC08Overlap(run *Run, iter int, variant string) (out []*c01Result, inconclusive string) {
	fail := func(key, f string, a ...any) {
		out = append(out, &c01Result{"C08/real/" + key, fmt.Sprintf(f, a...)})
	}
	c := NewCluster(int64(9000 + iter))
	defer c.Close()
	c.Net.KeepTrace = false
	var departures atomic.Int64 // datagrams from the leaver that carry its departure
	c.Net.OnPacket = append(c.Net.OnPacket, func(ev *PacketEvent) {
		if ev.Closed || ev.From != "10.0.8.1:7946" {
			return
		}
		pi := ParsePacket(ev.Buf, nil)
		if pi.Err != nil {
			return
		}
		for _, l := range pi.Leaves {
			var d WDead
			if l.Type == TDead && mpDecode(l.Body, &d) == nil && d.Node == "A" && d.From == "A" {
				departures.Add(1)
			}
		}
	})
	gossip := 400 * time.Millisecond
	mk := func(name, ip string, alive bool) (*SimNode, error) {
		return c.Add(NodeSpec{Name: name, IP: ip, WithAlive: alive, Mutate: func(cf *memberlist.Config) {
			cf.GossipInterval = gossip
			cf.ProbeInterval = time.Hour
			cf.PushPullInterval = 0
		}})
	}
	A, err := mk("A", "10.0.8.1", variant == "update-in-alive-delegate")
	if err != nil {
		return nil, "create: " + err.Error()
	}
	B, err := mk("B", "10.0.8.2", false)
	if err != nil {
		return nil, "create: " + err.Error()
	}
	if _, err := A.ML().Join([]string{B.EP.Addr}); err != nil {
		return nil, "join: " + err.Error()
	}
	if !waitUntil(10*time.Second, func() bool {
		return A.ML().VerifNumQueued() == 0 && B.ML().VerifNumQueued() == 0 && len(B.MemberNames()) == 2
	}) {
		return nil, "cluster did not settle"
	}
	switch variant {
	case "overlapping-leaves":
		// the first Leave waits for a gossip round to take its departure out; a second call arrives meanwhile
		errs := make(chan error, 2)
		go func() { errs <- A.ML().Leave(20 * time.Second) }()
		time.Sleep(15 * time.Millisecond)
		err2 := A.ML().Leave(20 * time.Second)
		sentAtReturn := departures.Load()
		run.Cell("real", "overlapping-leaves")
		if err2 == nil && sentAtReturn == 0 {
			fail("no-departure-sent/overlapping-leave", "a Leave call made 15 ms after another one (which was still waiting for its departure to be gossiped, gossip interval %v) returned nil although no datagram carrying the departure had left the node yet", gossip)
		}
		select {
		case <-errs:
		case <-time.After(30 * time.Second):
			return out, "first Leave did not return"
		}
	case "update-in-alive-delegate":
		// an UpdateNode is inside the application's alive callback (about the node itself) when Leave is called
		gate := make(chan struct{})
		entered := make(chan struct{})
		var once sync.Once
		A.mu.Lock()
		A.AliveVeto = func(peer *memberlist.Node) error {
			if peer.Name == "A" {
				first := false
				once.Do(func() { first = true })
				if first {
					close(entered)
					<-gate
				}
			}
			return nil
		}
		A.mu.Unlock()
		A.Del.SetMeta([]byte("meta-of-an-update-in-flight"))
		updDone := make(chan error, 1)
		go func() { updDone <- A.ML().UpdateNode(20 * time.Second) }()
		select {
		case <-entered:
		case <-time.After(10 * time.Second):
			close(gate)
			return nil, "the alive callback was never entered"
		}
		leaveDone := make(chan error, 1)
		go func() { leaveDone <- A.ML().Leave(20 * time.Second) }()
		// give Leave every chance to run to completion if nothing holds it back
		select {
		case e := <-leaveDone:
			leaveDone <- e
		case <-time.After(1200 * time.Millisecond):
		}
		close(gate)
		var lerr error
		select {
		case lerr = <-leaveDone:
		case <-time.After(40 * time.Second):
			return out, "Leave did not return"
		}
		select {
		case <-updDone:
		case <-time.After(40 * time.Second):
			return out, "UpdateNode did not return"
		}
		run.Cell("real", "update-in-alive-delegate")
		if lerr != nil {
			return out, "Leave returned " + lerr.Error()
		}
		time.Sleep(3 * gossip)
		own := A.Record("A")
		if own == nil || own.State != memberlist.StateLeft {
			fail("leaver-came-back/own-record", "Leave returned nil while an UpdateNode of the same node was inside the application's alive callback; afterwards the leaver holds itself as %s", recString(own))
		}
		waitUntil(5*time.Second, func() bool { r := B.Record("A"); return r != nil && r.State == memberlist.StateLeft })
		if r := B.Record("A"); r == nil || r.State != memberlist.StateLeft {
			fail("leaver-came-back/peer-record", "Leave returned nil while an UpdateNode of the same node was inside the application's alive callback; afterwards the peer holds the leaver as %s", recString(r))
		}
	}
	return out, ""
}
