package harness

// C11 — piggyback packing is lossless and stays within the packet budget.

import (
	"bytes"
	"encoding/binary"
	"fmt"
	"math/rand"
	"strings"
	"sync"
	"testing"
	"time"

	"github.com/hashicorp/memberlist"
)

// fillDelegate hands out user broadcasts in a chosen pattern and always
// respects the contract sum(len+overhead) <= limit.
type fillDelegate struct {
	mu       sync.Mutex
	mode     string // tiny | exact | equal | off
	budget   int    // how many more messages may be handed out
	nextID   uint32
	handed   map[string]int // payload -> times handed out
	handedN  int
	calls    int
	maxLimit int
	recv     map[string]int
	recvN    int
	meta     []byte
	// busy application: the first NotifyMsg call parks on gate (later messages queue up behind it)
	gate    chan struct{}
	gateHit bool
}

func (d *fillDelegate) NodeMeta(int) []byte { return d.meta }
func (d *fillDelegate) NotifyMsg(b []byte) {
	d.mu.Lock()
	d.recv[string(b)]++
	d.recvN++
	g := d.gate
	first := !d.gateHit
	d.gateHit = true
	d.mu.Unlock()
	if g != nil && first {
		<-g
	}
}
func (d *fillDelegate) LocalState(bool) []byte        { return nil }
func (d *fillDelegate) MergeRemoteState([]byte, bool) {}
func (d *fillDelegate) GetBroadcasts(overhead, limit int) [][]byte {
	d.mu.Lock()
	defer d.mu.Unlock()
	d.calls++
	if limit > d.maxLimit {
		d.maxLimit = limit
	}
	var out [][]byte
	used := 0
	mk := func(n int) []byte {
		d.nextID++
		p := bytes.Repeat([]byte{byte(d.nextID)}, n)
		if n >= 4 {
			binary.BigEndian.PutUint32(p, d.nextID)
		}
		return p
	}
	for d.budget > 0 {
		var n int
		switch d.mode {
		case "tiny":
			n = 1
		case "equal":
			n = 20
		case "exact":
			n = limit - used - overhead // one message that fills what is offered exactly
		default:
			return out
		}
		if n < 1 || used+overhead+n > limit {
			break
		}
		p := mk(n)
		out = append(out, p)
		used += overhead + n
		d.budget--
		d.handed[string(p)]++
		d.handedN++
		if d.mode == "exact" {
			break
		}
	}
	return out
}

type c11Scn struct {
	UDP      int    `json:"udp_buffer_size"`
	Label    string `json:"label"`
	KeyLen   int    `json:"key_len"`
	PV       int    `json:"protocol_version"`
	Compress bool   `json:"compress"`
	Mode     string `json:"fill"`           // tiny | exact | equal | members
	FakePMax int    `json:"fake_peer_pmax"` // 0 = no fake peer; 2 or 4 = a peer that gets no checksum header
	Count    int    `json:"count"`
	// the keyring is empty when the node is created; the key is installed and made primary at run
	// time, before any traffic (encryption is decided per packet from the keyring's current content)
	LateKey bool `json:"key_installed_at_runtime,omitempty"`
	// the receiving application is stuck in its first NotifyMsg until everything has been handed out
	BusyRx bool `json:"receiver_delegate_busy,omitempty"`
}

func runC11(run *Run, seed int64, sc c11Scn, rng *rand.Rand) (out []*c01Result) {
	fail := func(key, f string, a ...any) {
		if len(out) < 8 {
			out = append(out, &c01Result{"C11/" + key, fmt.Sprintf(f, a...)})
		}
	}
	var key []byte
	if sc.KeyLen > 0 {
		key = bytes.Repeat([]byte{0x61}, sc.KeyLen)
	}
	var lateRings []*memberlist.Keyring
	dA := &fillDelegate{mode: "off", handed: map[string]int{}, recv: map[string]int{}, meta: []byte("A")}
	dB := &fillDelegate{mode: "off", handed: map[string]int{}, recv: map[string]int{}, meta: []byte("B")}
	mut := func(d *fillDelegate) func(cf *memberlist.Config) {
		return func(cf *memberlist.Config) {
			cf.Delegate = d
			cf.UDPBufferSize = sc.UDP
			cf.ProtocolVersion = uint8(sc.PV)
			cf.Label = sc.Label
			cf.EnableCompression = sc.Compress
			cf.PushPullInterval = 0
			cf.GossipNodes = 3
			if key != nil {
				ring, _ := memberlist.NewKeyring(nil, key)
				if sc.LateKey {
					ring, _ = memberlist.NewKeyring(nil, nil)
					lateRings = append(lateRings, ring)
				}
				cf.Keyring = ring
			}
		}
	}
	rig, err := NewRig(RigOpts{Seed: seed, Label: sc.Label, Key: key, PVer: uint8(sc.PV), Compress: sc.Compress, Spec: NodeSpec{Name: "A", IP: "10.9.9.9", NoDelegate: true, Mutate: mut(dA)}})
	if err != nil {
		fail("harness/create", "%v", err)
		return
	}
	defer rig.Close()
	A := rig.V
	B, err := rig.C.Add(NodeSpec{Name: "B", IP: "10.9.9.8", NoDelegate: true, Mutate: mut(dB)})
	if err != nil {
		fail("harness/create", "%v", err)
		return
	}
	for _, ring := range lateRings {
		if err := ring.AddKey(key); err != nil {
			fail("harness/late-key", "%v", err)
			return
		}
		if err := ring.UseKey(key); err != nil {
			fail("harness/late-key", "%v", err)
			return
		}
	}
	// wire monitor: nothing A assembles may exceed the configured packet size
	var tapMu sync.Mutex
	maxLen, pkts, near, over255 := 0, 0, 0, 0
	var tooBig, badPkts []string
	aliveToB := map[string]bool{}
	fakeGot := map[string]int{}
	fakeBad := map[string]int{}
	fakeN := 0
	rig.C.Net.OnPacket = append(rig.C.Net.OnPacket, func(ev *PacketEvent) {
		if ev.From != A.EP.Addr || ev.Closed {
			return
		}
		tapMu.Lock()
		defer tapMu.Unlock()
		// every packet the sender assembles must unpack cleanly (oracle-side receiver)
		if pi := ParsePacket(ev.Buf, rig.Keys); pi.Err != nil || pi.Truncated > 0 {
			if len(badPkts) < 3 {
				badPkts = append(badPkts, fmt.Sprintf("%d bytes to %s: err=%v truncated=%d", len(ev.Buf), ev.To, pi.Err, pi.Truncated))
			}
		} else if ev.To == "10.9.9.8:7946" && !ev.Dropped {
			for _, l := range pi.Leaves {
				if l.Type == TAlive {
					var a WAlive
					if mpDecode(l.Body, &a) == nil {
						aliveToB[a.Node] = true
					}
				}
			}
		}
		pkts++
		if len(ev.Buf) > maxLen {
			maxLen = len(ev.Buf)
		}
		if len(ev.Buf) > sc.UDP-8 {
			near++
		}
		if len(ev.Buf) > sc.UDP && len(tooBig) < 3 {
			pi := ParsePacket(ev.Buf, rig.Keys)
			kinds := map[string]int{}
			for _, l := range pi.Leaves {
				kinds[TypeName(l.Type)]++
			}
			tooBig = append(tooBig, fmt.Sprintf("%d bytes to %s (crc=%v sealed=%v leaves=%v)", len(ev.Buf), ev.To, pi.HasCRC, pi.Sealed, kinds))
		}
	})
	if _, err := A.ML().Join([]string{B.EP.Addr}); err != nil {
		fail("harness/join", "%v", err)
		return
	}
	var F *FakePeer
	if sc.FakePMax > 0 {
		F = rig.AddPeer("F", "10.9.1.7", 7946)
		F.AutoAck = true
		F.OnPacket = func(p RecvPacket) {
			tapMu.Lock()
			defer tapMu.Unlock()
			if p.Info.Err != nil {
				fakeBad["unparsable: "+p.Info.Err.Error()]++
				return
			}
			if p.Info.Truncated > 0 {
				fakeBad["truncated-compound"]++
			}
			for _, l := range p.Info.Leaves {
				if l.Type == TUser {
					fakeGot[string(l.Body)]++
					fakeN++
				}
			}
		}
		F.Send(Enc(TAlive, &WAlive{Incarnation: 1, Node: "F", Addr: []byte(F.EP.IP), Port: 7946, Vsn: []uint8{1, uint8(sc.FakePMax), 2, 0, 0, 0}}))
	}
	Settle(500 * time.Millisecond)
	if sc.Mode == "members" {
		// many membership broadcasts: alive claims for fake members with metadata of 0..512 bytes
		x := rig.AddPeer("x", "10.9.1.1", 7946)
		x.AutoAck = true
		for i := 0; i < sc.Count; i++ {
			meta := bytes.Repeat([]byte{byte(i)}, []int{0, 1, 100, 511, 512}[i%5])
			x.Send(Enc(TAlive, &WAlive{Incarnation: 1, Node: fmt.Sprintf("m%03d", i), Addr: []byte{10, 20, byte(i / 250), byte(i%250 + 1)}, Port: 7946, Meta: meta, Vsn: DefaultVsn()}))
			if i%20 == 19 {
				Settle(50 * time.Millisecond)
			}
		}
		// (no user messages here: most gossip targets are the fake members, which have no delegate to count deliveries)
	} else {
		dA.mu.Lock()
		dA.mode, dA.budget = sc.Mode, sc.Count
		dA.mu.Unlock()
	}
	if sc.BusyRx {
		dB.mu.Lock()
		dB.gate = make(chan struct{})
		dB.mu.Unlock()
		run.Cell("pack-busy-receiver", fmt.Sprintf("comp=%v", sc.Compress))
	}
	// let gossip, probes (ping/ack piggyback) and indirect traffic run until everything was handed out
	for i := 0; i < 400; i++ {
		Settle(250 * time.Millisecond)
		dA.mu.Lock()
		left := dA.budget
		dA.mu.Unlock()
		if left == 0 {
			break
		}
	}
	if sc.BusyRx {
		Settle(time.Second)
		dB.mu.Lock()
		g := dB.gate
		dB.gate = nil
		dB.mu.Unlock()
		close(g)
	}
	// ... and until the sender's membership broadcast queue has drained (every retransmission done)
	for i := 0; i < 2400 && A.ML().VerifNumQueued() > 0; i++ {
		Settle(250 * time.Millisecond)
	}
	Settle(3 * time.Second)
	// ---- budget ----
	tapMu.Lock()
	defer tapMu.Unlock()
	run.Count("packets_checked", int64(pkts))
	run.Count("packets_within_8_bytes_of_limit", int64(near))
	run.Max(fmt.Sprintf("max_packet_over_limit_udp%d", sc.UDP), float64(maxLen)/float64(sc.UDP))
	if near > 0 {
		run.Cell("near-limit", sc.Mode)
	}
	if len(tooBig) > 0 {
		fail("over-budget/"+budgetClass(maxLen-sc.UDP), "packets larger than UDPBufferSize %d left the node: %v (largest %d) scenario %+v", sc.UDP, tooBig, maxLen, brief(sc))
	}
	// ---- losslessness ----
	dA.mu.Lock()
	dB.mu.Lock()
	defer dA.mu.Unlock()
	defer dB.mu.Unlock()
	if dA.handedN == 0 && sc.Mode != "members" {
		fail("harness/nothing-handed-out", "the delegate was never asked for broadcasts")
		return
	}
	run.Count("user_msgs_handed_out", int64(dA.handedN))
	lost, dup := 0, 0
	for p, n := range dA.handed {
		got := dB.recv[p] + fakeGot[p]
		if got < n {
			lost += n - got
		}
		if got > n {
			dup += got - n
		}
	}
	for k, v := range fakeBad {
		{
			fail("receiver-cannot-unpack", "a packet assembled by the node does not unpack at the receiver: %q (x%d) scenario %+v", k, v, brief(sc))
		}
	}
	_ = over255
	if lost > 0 {
		fail("user-msgs-lost", "%d of %d user messages handed to the node for piggybacking never reached a receiver's delegate on a loss-free network (received %d at B, %d at the fake peer) scenario %+v", lost, dA.handedN, dB.recvN, fakeN, brief(sc))
	}
	if dup > 0 {
		fail("user-msgs-duplicated", "%d user messages were delivered more often than handed out", dup)
	}
	for p := range dB.recv {
		if _, ok := dA.handed[p]; !ok {
			fail("user-msgs-corrupted", "the receiver's delegate got a %d-byte user message that was never handed out", len(p))
			break
		}
	}
	if len(badPkts) > 0 {
		fail("receiver-cannot-unpack", "packets assembled by the node do not unpack: %v scenario %+v", badPkts, brief(sc))
	}
	if sc.Mode == "members" {
		have := map[string]bool{}
		for _, nm := range B.MemberNames() {
			have[nm] = true
		}
		for _, e := range B.Ev.Log() { // the fake members never answer probes: the receiver may already have declared them dead
			if e.Kind == "join" {
				have[e.Name] = true
			}
		}
		missing := 0
		for nm := range aliveToB {
			if !have[nm] && nm != "A" && nm != "B" {
				missing++
			}
		}
		run.Count("members_gossiped_to_receiver", int64(len(aliveToB)))
		if len(aliveToB) < 10 {
			fail("harness/too-few-members-gossiped", "only %d member claims were addressed to the receiver", len(aliveToB))
		}
		if missing > 0 {
			fail("membership-lost", "%d of the %d member claims packed into packets for the receiver never reached its view scenario %+v", missing, len(aliveToB), brief(sc))
		}
	}
	return
}

func budgetClass(over int) string {
	switch {
	case over <= 2:
		return "le2"
	case over <= 7:
		return "le7"
	}
	return "gt7"
}

func brief(sc c11Scn) c11Scn {
	if len(sc.Label) > 8 {
		sc.Label = fmt.Sprintf("%dxL", len(sc.Label))
	}
	return sc
}

func TestC11(t *testing.T) {
	run := NewRun(t, "C11", "exploration",
		"A real sender with a contract-respecting delegate (sum(len+overhead) <= limit, always) and a real receiver (+ optionally a fake peer advertising PMax 2/4, i.e. no checksum header) on a loss-free network. Fill patterns: >= 400 one-byte user messages (more than 255 parts fit a packet), one message that fills the offered limit exactly, equal-length messages, 300 membership broadcasts with 0-512 byte metadata plus user messages. Config: UDPBufferSize {512, 1400, 1401-1408, 9000, 65507} x label none/1/255 bytes x encryption none/v0/v1 x compression x protocol version. Budget monitor: every packet leaving the sender's innermost transport (ping/ack piggyback, indirect, gossip single/compound/split) is <= UDPBufferSize. Loss monitor: the multiset of user messages handed out equals the multiset delivered to receivers' delegates (real receiver: NotifyMsg; fake peer: oracle-side unpacking), no truncated or unparsable compound, every gossiped member reaches the receiver's view. Cell = (fill, udp size, label, enc, compress, crc|nocrc peer).")
	defer run.Finish()
	run.Assume("the delegate fills the offered limit exactly in the 'exact' pattern: that is within its contract")
	udps := []int{512, 1400, 1401, 1402, 1403, 1404, 1405, 1406, 1407, 1408, 9000, 65507}
	labels := []string{"", "l", strings.Repeat("L", 255)}
	n := run.Pick(120, 16000)
	for i := 0; i < n; i++ {
		if !run.Mine(i) {
			continue
		}
		id := fmt.Sprintf("pack/%d", i)
		if !run.Want(id) {
			continue
		}
		rng := run.RNG(id)
		sc := c11Scn{
			UDP:      udps[rng.Intn(len(udps))],
			Label:    labels[rng.Intn(3)],
			KeyLen:   []int{0, 0, 16, 32}[rng.Intn(4)],
			LateKey:  i%3 == 0,
			BusyRx:   i%4 == 2 || i%4 == 1,
			PV:       []int{5, 5, 2, 1}[rng.Intn(4)],
			Compress: rng.Intn(3) == 0,
			Mode:     []string{"tiny", "exact", "equal", "members"}[i%4],
			FakePMax: []int{0, 0, 2, 4}[rng.Intn(4)],
		}
		if i < 12 {
			sc.UDP = 1400 // the default size with every pattern first
		}
		if i%4 == 1 {
			// encryption version 0 pads to 16-byte blocks: sweep packet sizes across a whole block so that
			// the budget is exercised where the padded length lands exactly on the limit
			sc.PV, sc.KeyLen, sc.Mode, sc.Compress, sc.BusyRx = 1, 16, "exact", false, false
			sc.UDP = 1400 + (i/4)%32
			sc.Label = []string{"", "lbl"}[(i/4)%2]
			sc.FakePMax, sc.LateKey = 0, false
		}
		switch sc.Mode {
		case "tiny":
			sc.Count = 1200
		case "exact":
			sc.Count = 40
		case "equal":
			sc.Count = 600
		case "members":
			sc.Count = 300
		}
		if sc.UDP == 512 && len(sc.Label) == 255 {
			sc.Label = "l" // nothing useful fits next to a 257-byte header
		}
		run.Journal(id, fmt.Sprintf("%+v", brief(sc)))
		var res []*c01Result
		err := Bubble(t, func() { res = runC11(run, run.Seed()*53+int64(i), sc, rng) })
		if err != nil {
			res = append(res, &c01Result{"C11/bubble", err.Error()})
		}
		run.Eval(1)
		crc := "crc-peer"
		if sc.FakePMax > 0 {
			crc = "crc+nocrc-peers"
		}
		run.Cell("pack", sc.Mode, fmt.Sprintf("udp=%d", sc.UDP), fmt.Sprintf("label=%d", len(sc.Label)), fmt.Sprintf("key=%d", sc.KeyLen), fmt.Sprintf("late=%v", sc.LateKey && sc.KeyLen > 0), fmt.Sprintf("pv=%d", sc.PV), fmt.Sprintf("comp=%v", sc.Compress), crc)
		for _, r := range res {
			run.Violation(id, r.Key, r.What, brief(sc))
		}
		if i == 0 {
			run.Sample(brief(sc))
		}
	}
	if !run.Replaying() {
		run.Require("near-limit|exact")
	}
	run.Complete()
	if run.Violations() > 0 {
		t.Errorf("%d violation(s)", run.Violations())
	}
}
