package harness

// C19 — probe acknowledgements are correctly correlated, relayed and cleaned up.

import (
	"fmt"
	"math/rand"
	"net"
	"strings"
	"sync"
	"sync/atomic"
	"testing"
	"time"

	"github.com/hashicorp/memberlist"
)

// one scripted answer to a probe
type c19Answer struct {
	Via     string        `json:"via"`     // direct | relay | tcp | none
	SeqRel  int           `json:"seq_rel"` // 0 = the probe's own number, +-1, -100 (an old one)
	At      time.Duration `json:"at_ns"`   // offset from the probe's ping
	Dup     bool          `json:"duplicate"`
	TCPKind string        `json:"tcp_kind,omitempty"` // ack | wrong-seq | wrong-type | garbage | silent
	Nacks   int           `json:"nacks"`              // how many of the indirect peers send a nack
}

type c19Scn struct {
	Indirect int         `json:"indirect_checks"`
	Peers    int         `json:"peers"`
	OldPeers int         `json:"peers_with_pmax3"` // they do not send nacks
	TCP      bool        `json:"tcp_fallback"`
	Health0  int         `json:"initial_health"`
	Answers  []c19Answer `json:"answers"`
	// the probe sequence counter starts just below 2^32 and, while each probe is pending, the node is
	// made to allocate one more number (it relays a probe for somebody else): numbers wrap mid-probe
	NearWrap bool `json:"sequence_numbers_near_wraparound,omitempty"`
}

func runC19Probe(run *Run, seed int64, sc c19Scn) (out []*c01Result) {
	fail := func(key, f string, a ...any) {
		if len(out) < 6 {
			out = append(out, &c01Result{"C19/" + key, fmt.Sprintf(f, a...)})
		}
	}
	rig, err := NewRig(RigOpts{Seed: seed, Spec: NodeSpec{Name: "V", IP: "10.9.9.9", Mutate: func(cf *memberlist.Config) {
		cf.ProbeInterval = time.Second
		cf.ProbeTimeout = 300 * time.Millisecond
		cf.PushPullInterval = 0
		cf.IndirectChecks = sc.Indirect
		cf.DisableTcpPings = !sc.TCP
		cf.GossipInterval = 0 // nothing on the wire but probe traffic
		cf.SuspicionMult = 30 // suspicions stay pending for the whole script
	}}})
	if err != nil {
		fail("harness/create", "%v", err)
		return
	}
	defer rig.Close()
	m := rig.V.ML()
	cf := rig.V.Conf
	maxHealth := cf.AwarenessMaxMultiplier - 1
	// target T and helper peers; all fake
	T := rig.AddPeer("T", "10.9.2.1", 7946)
	var helpers []*FakePeer
	for i := 0; i < sc.Peers; i++ {
		p := rig.AddPeer(fmt.Sprintf("h%d", i), fmt.Sprintf("10.9.3.%d", i+1), 7946)
		helpers = append(helpers, p)
		vsn := DefaultVsn()
		if i < sc.OldPeers {
			vsn = []uint8{1, 3, 2, 0, 0, 0}
		}
		p.Send(Enc(TAlive, &WAlive{Incarnation: 1, Node: p.Name, Addr: []byte(p.EP.IP), Port: 7946, Vsn: vsn}))
		p.AutoAck = true
	}
	rig.Introduce(T, 1)
	Settle(time.Millisecond)
	var Q *FakePeer
	if sc.NearWrap {
		m.VerifSetSequenceNum(0xFFFFFFFF - uint32(seed%3))
		Q = rig.AddPeer("Q", "10.9.4.1", 7946)
		rig.AddPeer("Z", "10.9.4.2", 7946) // silent
	}
	// raise the health score by accusing V (each refutation is +1)
	for i := 0; i < sc.Health0; i++ {
		T.Send(Enc(TSuspect, &WSuspect{Incarnation: uint32(1000 + i), Node: "V", From: "T"}))
		Settle(time.Millisecond)
	}
	if h := m.GetHealthScore(); h != min(sc.Health0, maxHealth) {
		fail("health/refutation", "after %d refutations the health score is %d", sc.Health0, h)
		return
	}
	// probe bookkeeping from the wire
	type probe struct {
		seq      uint32
		at       time.Time
		health   int
		mu       sync.Mutex // the helpers' receive loops append while timers read
		indirect []string   // helpers asked
		nackable int
	}
	var cur *probe
	tcpKind := "silent"
	var tcpDelay time.Duration
	armed := false
	T.OnPacket = func(p RecvPacket) {
		for _, l := range p.Info.Leaves {
			if l.Type == TPing {
				var pg WPing
				if mpDecode(l.Body, &pg) != nil || pg.Node != "T" {
					continue
				}
				if armed && cur == nil {
					armed = false
					// p.At is the arrival at the target; the probe started one network delay earlier
					cur = &probe{seq: pg.SeqNo, at: p.At.Add(-rig.C.Net.DefaultDelay), health: m.GetHealthScore()}
				} else if cur == nil || pg.SeqNo != cur.seq {
					// probes outside the script are answered at once, so that they leave no trace
					T.Send(Enc(TAck, &WAck{SeqNo: pg.SeqNo}))
				}
			}
		}
	}
	for _, h := range helpers {
		h := h
		h.OnPacket = func(p RecvPacket) {
			for _, l := range p.Info.Leaves {
				if l.Type == TIndirectPing && cur != nil {
					var ip WIndirectPing
					if mpDecode(l.Body, &ip) == nil && ip.Node == "T" {
						cur.mu.Lock()
						cur.indirect = append(cur.indirect, h.Name)
						if ip.Nack {
							cur.nackable++
						}
						cur.mu.Unlock()
					}
				}
			}
		}
	}
	T.OnStream = func(c *ConnEnd) {
		kind, delay, p := tcpKind, tcpDelay, cur
		if p == nil {
			return
		}
		time.Sleep(delay)
		switch kind {
		case "ack":
			_, _ = c.Write(Enc(TAck, &WAck{SeqNo: p.seq}))
		case "wrong-seq":
			_, _ = c.Write(Enc(TAck, &WAck{SeqNo: p.seq + 1}))
		case "wrong-type":
			_, _ = c.Write(Enc(TNack, &WNack{SeqNo: p.seq}))
		case "garbage":
			_, _ = c.Write([]byte{0xde, 0xad, 0xbe, 0xef, 0x00, 0x01})
		}
	}
	prevSuspectLines := 0
	// local send failures: the transport refuses the datagram with an error that does not blame the peer
	sendErrArmed, sendErrHit := false, false
	rig.V.EP.WriteErr = func(buf []byte, to memberlist.Address) error {
		if sendErrArmed && to.Addr == T.EP.Addr {
			sendErrArmed, sendErrHit = false, true
			return fmt.Errorf("sendto: no buffer space available")
		}
		return nil
	}
	for ai, a := range sc.Answers {
		if a.Via == "send-error" {
			// wait for a quiet instant, then make the next datagram to the target fail locally
			hB := m.GetHealthScore()
			sendErrHit = false
			sendErrArmed = true
			polls := 0
			for ; polls < 60000 && !sendErrHit; polls++ {
				time.Sleep(time.Millisecond)
				if !sendErrHit {
					hB = m.GetHealthScore() // helper probes may still lower it until the failing probe starts
				}
			}
			sendErrArmed = false
			Settle(50 * time.Microsecond)
			run.Eval(1)
			run.Cell("probe", "send-error", fmt.Sprintf("health=%d", hB))
			if !sendErrHit {
				fail("harness/no-probe", "V never probed the target (send-error case)")
				return
			}
			if hA := m.GetHealthScore(); hA < hB {
				fail("health/fell-without-successful-probe", "the ping could not even be sent (local transport error), yet the health score improved %d -> %d", hB, hA)
				return
			}
			continue
		}
		// wait for V to start probing T (helpers are auto-acked, so only T matters)
		cur = nil
		armed = true
		tcpKind, tcpDelay = a.TCPKind, a.At
		if a.Via != "tcp" {
			tcpKind = "silent"
		}
		for i := 0; i < 4000 && cur == nil; i++ {
			Settle(5 * time.Millisecond)
		}
		if cur == nil {
			fail("harness/no-probe", "V never probed the target (answer %d)", ai)
			return
		}
		p := cur
		if Q != nil {
			Q.Send(Enc(TIndirectPing, &WIndirectPing{SeqNo: uint32(9000 + ai), Target: []byte{10, 9, 4, 2}, Port: 7946, Node: "Z", Nack: false, SourceAddr: []byte(Q.EP.IP), SourcePort: 7946, SourceNode: "Q"}))
			run.Cell("probe-near-wrap", fmt.Sprintf("seq-above-2^31=%v", p.seq > 1<<31))
		}
		hBefore := p.health
		interval := time.Duration(p.health+1) * cf.ProbeInterval
		deadline := p.at.Add(interval)
		seq := uint32(int64(p.seq) + int64(a.SeqRel))
		send := func(from *FakePeer) {
			from.Send(Enc(TAck, &WAck{SeqNo: seq}))
			if a.Dup {
				from.Send(Enc(TAck, &WAck{SeqNo: seq}))
			}
		}
		// answers and nacks are scheduled on the (virtual) clock, the main line only observes
		switch a.Via {
		case "direct":
			time.AfterFunc(time.Until(p.at.Add(a.At)), func() { send(T) })
		case "relay":
			if len(helpers) > 0 {
				time.AfterFunc(time.Until(p.at.Add(a.At)), func() { send(helpers[len(helpers)-1]) }) // any third party may carry the relayed ack
			}
		}
		if a.Nacks > 0 {
			time.AfterFunc(time.Until(p.at.Add(cf.ProbeTimeout+50*time.Millisecond)), func() {
				p.mu.Lock()
				asked := append([]string(nil), p.indirect...)
				p.mu.Unlock()
				sent := 0
				for _, hn := range asked {
					if sent >= a.Nacks {
						break
					}
					if fp := rig.Peers[hn]; fp != nil {
						fp.Send(Enc(TNack, &WNack{SeqNo: p.seq}))
						sent++
					}
				}
			})
		}
		// the probe ends when the right ack arrives over UDP, otherwise at its deadline; read the health score
		// right then, before the next (helper) probe's success can lower it again
		answeredAt := deadline
		if (a.Via == "direct" || (a.Via == "relay" && len(helpers) > 0)) && a.SeqRel == 0 && p.at.Add(a.At).Before(deadline.Add(-time.Millisecond)) {
			answeredAt = p.at.Add(a.At)
		}
		time.Sleep(time.Until(answeredAt.Add(50 * time.Microsecond)))
		Settle(0)
		hAfter := m.GetHealthScore()
		end := deadline.Add(20 * time.Millisecond)
		if late := p.at.Add(a.At + 5*time.Millisecond); (a.Via == "direct" || a.Via == "relay") && late.After(end) {
			end = late // a late answer is delivered too (it must have no effect)
		}
		time.Sleep(time.Until(end))
		Settle(0)
		// observed outcome
		suspected := false
		for _, ln := range rig.V.Log.Grep(0, "Suspect T has failed") {
			if !ln.At.Before(p.at) {
				suspected = true
			}
		}
		_ = prevSuspectLines
		answered := false
		arrive := a.At
		switch a.Via {
		case "direct", "relay":
			answered = a.SeqRel == 0 && p.at.Add(arrive).Before(deadline.Add(-time.Millisecond)) && (a.Via == "direct" || len(helpers) > 0)
		case "tcp":
			// the fallback only starts after the UDP timeout; its reply counts if it is the right ack and in time
			answered = sc.TCP && a.TCPKind == "ack" && p.at.Add(cf.ProbeTimeout+arrive).Before(deadline.Add(-time.Millisecond))
		}
		run.Eval(1)
		when := "in-time"
		if a.Via != "none" && !p.at.Add(arrive).Before(deadline) {
			when = "late"
		} else if arrive > cf.ProbeTimeout {
			when = "after-udp-timeout"
		}
		run.Cell("probe", a.Via, fmt.Sprintf("seq%+d", a.SeqRel), when, a.TCPKind, fmt.Sprintf("ind=%d", sc.Indirect), fmt.Sprintf("health=%d", hBefore))
		p.mu.Lock()
		askedNames, nackable := append([]string(nil), p.indirect...), p.nackable
		p.mu.Unlock()
		desc := fmt.Sprintf("probe #%d seq %d at health %d (deadline +%v): answer %+v; indirect peers asked %v (nack-capable %d)", ai, p.seq, hBefore, interval, a, askedNames, nackable)
		if answered && suspected {
			fail("answered-but-suspected", "an acknowledgement carrying the probe's own sequence number arrived before the deadline, yet the target was suspected: %s", desc)
			return
		}
		if !answered && !suspected {
			fail("unanswered-but-not-suspected/"+a.Via+fmt.Sprintf("/seq%+d/%s/%s", a.SeqRel, when, a.TCPKind), "no valid acknowledgement arrived before the deadline, yet the probe counted as answered: %s", desc)
			return
		}
		// health score
		want := hBefore
		if answered {
			want--
		} else if nackable > 0 {
			missed := nackable - a.Nacks
			if missed < 0 {
				missed = 0
			}
			want += missed
		} else {
			want++
		}
		if want < 0 {
			want = 0
		}
		if want > maxHealth {
			want = maxHealth
		}
		if hAfter < 0 || hAfter > maxHealth {
			fail("health/range", "health score %d outside [0,%d]", hAfter, maxHealth)
			return
		}
		if hAfter != want {
			fail("health/delta", "health score went %d -> %d, expected %d: %s", hBefore, hAfter, want, desc)
			return
		}
		// refute the suspicion so that the next probe starts from 'alive' (and is not a suspect-piggyback probe)
		if suspected {
			rec := rig.V.Record("T")
			inc := uint32(2)
			if rec != nil {
				inc = rec.Incarnation + 1
			}
			T.Send(Enc(TAlive, &WAlive{Incarnation: inc, Node: "T", Addr: []byte(T.EP.IP), Port: 7946, Vsn: DefaultVsn()}))
			Settle(time.Millisecond)
		}
		// every pending-probe record is gone by its deadline
		Settle(cf.ProbeTimeout + 50*time.Millisecond)
	}
	Settle(time.Duration(maxHealth+2) * cf.ProbeInterval)
	// V keeps probing (the helpers answer); handlers of probes in flight are legitimate: at most one
	if n := m.VerifAckHandlers(); n > 1 {
		fail("handler-leak", "%d pending-probe records remain although every scripted deadline has passed", n)
	}
	rig.C.CheckQuiescent()
	for _, p := range rig.C.Problems() {
		out = append(out, &c01Result{p.Key, p.What})
	}
	return
}

// relay oracle: V is asked to probe on a fake peer's behalf
func runC19Relay(run *Run, seed int64, rng *rand.Rand) (out []*c01Result) {
	fail := func(key, f string, a ...any) {
		if len(out) < 6 {
			out = append(out, &c01Result{"C19/relay/" + key, fmt.Sprintf(f, a...)})
		}
	}
	rig, err := NewRig(RigOpts{Seed: seed, Spec: NodeSpec{Name: "V", IP: "10.9.9.9", Mutate: func(cf *memberlist.Config) {
		cf.ProbeInterval = noProbe
		cf.ProbeTimeout = 300 * time.Millisecond
		cf.PushPullInterval = 0
		cf.GossipInterval = 0
	}}})
	if err != nil {
		fail("harness/create", "%v", err)
		return
	}
	defer rig.Close()
	R := rig.AddPeer("R", "10.9.1.1", 7946) // requester
	T := rig.AddPeer("T", "10.9.2.1", 7946) // target
	var sendErr atomic.Bool
	rig.V.EP.WriteErr = func(buf []byte, to memberlist.Address) error {
		if sendErr.Load() && to.Addr == T.EP.Addr {
			return &net.OpError{Op: "write", Net: "udp", Err: fmt.Errorf("sendto: no buffer space available")}
		}
		return nil
	}
	pending := map[uint32]bool{}
	usedSeq := map[uint32]int{}
	var lastFresh uint32 // the sequence number of the last ping the relay forwarded (it hands them out in sequence)
	haveFresh := false
	for k := 0; k < 60; k++ {
		r := uint32(5000 + k)
		wantNack := rng.Intn(2) == 0
		mode := []string{"ack-early", "ack-late", "no-ack", "ack-wrong-seq", "ack-from-other", "send-error", "send-error-then-ack"}[rng.Intn(7)]
		if mode == "send-error-then-ack" && !haveFresh {
			mode = "send-error"
		}
		nT, nR := len(T.Received()), len(R.Received())
		// send-error: the relay's own ping cannot be sent (the local stack refuses the datagram); the
		// requester must still get its nack
		sendErr.Store(mode == "send-error" || mode == "send-error-then-ack")
		R.Send(Enc(TIndirectPing, &WIndirectPing{SeqNo: r, Target: []byte(T.EP.IP), Port: 7946, Node: "T", Nack: wantNack, SourceAddr: []byte(R.EP.IP), SourcePort: 7946, SourceNode: "R"}))
		Settle(2 * time.Millisecond)
		// the forwarded ping
		var fresh uint32
		found := 0
		for _, p := range T.Received()[nT:] {
			for _, l := range p.Info.Leaves {
				if l.Type == TPing {
					var pg WPing
					if mpDecode(l.Body, &pg) == nil {
						fresh = pg.SeqNo
						found++
						if pg.Node != "T" {
							fail("ping-node", "forwarded ping names %q", pg.Node)
						}
					}
				}
			}
		}
		run.Eval(1)
		run.Cell("relay", mode, fmt.Sprintf("nack=%v", wantNack))
		if mode == "send-error" || mode == "send-error-then-ack" {
			sendErr.Store(false)
			if found != 0 {
				fail("harness/send-error", "%d pings reached the target although the send was refused", found)
				return
			}
			thenAck := mode == "send-error-then-ack"
			if thenAck {
				// an acknowledgement carrying the number of the ping that never left (the numbers are sequential):
				// the relay's record for it is still pending, so it is relayed and the nack is called off - once
				Settle(50 * time.Millisecond)
				lastFresh++
				T.Send(Enc(TAck, &WAck{SeqNo: lastFresh}))
				T.Send(Enc(TAck, &WAck{SeqNo: lastFresh}))
			} else if haveFresh {
				lastFresh++ // (the refused ping consumed a number)
			}
			Settle(700 * time.Millisecond)
			acks, nacks := 0, 0
			for _, p := range R.Received()[nR:] {
				for _, l := range p.Info.Leaves {
					switch l.Type {
					case TAck:
						acks++
					case TNack:
						var a WNack
						if mpDecode(l.Body, &a) == nil && a.SeqNo != r {
							fail("nack-wrong-seq", "nack carries %d, the requester's number is %d", a.SeqNo, r)
						}
						nacks++
					}
				}
			}
			wantNacks := 0
			if wantNack {
				wantNacks = 1
			}
			if thenAck {
				if acks > 1 || nacks > wantNacks || (acks == 1 && nacks != 0) {
					fail("relay-outcome/send-error-then-ack", "request r=%d nack=%v, the relay's ping could not be sent and two copies of an acknowledgement for its number arrived 50 ms later: requester got %d ack(s) and %d nack(s)", r, wantNack, acks, nacks)
					return
				}
				if acks == 0 {
					run.Count("relay_send_error_ack_guess_missed", 1)
				}
				continue
			}
			if acks != 0 || nacks != wantNacks {
				fail("relay-outcome/send-error", "request r=%d nack=%v, the relay's ping could not be sent: requester got %d ack(s) and %d nack(s), expected 0 and %d", r, wantNack, acks, nacks, wantNacks)
				return
			}
			continue
		}
		if found != 1 {
			fail("forward-count", "an indirect-ping request produced %d pings to the target", found)
			return
		}
		if pending[fresh] {
			fail("seq-reused-while-pending", "the forwarded ping reuses sequence number %d which is still pending", fresh)
			return
		}
		usedSeq[fresh]++
		lastFresh, haveFresh = fresh, true
		if fresh == r {
			run.Count("relay_seq_equal_to_requesters", 1)
		}
		pending[fresh] = true
		switch mode {
		case "ack-early":
			Settle(100 * time.Millisecond)
			T.Send(Enc(TAck, &WAck{SeqNo: fresh}))
		case "ack-late":
			Settle(350 * time.Millisecond)
			T.Send(Enc(TAck, &WAck{SeqNo: fresh}))
		case "ack-wrong-seq":
			Settle(100 * time.Millisecond)
			T.Send(Enc(TAck, &WAck{SeqNo: fresh + 7}))
		case "ack-from-other":
			Settle(100 * time.Millisecond)
			R.Send(Enc(TAck, &WAck{SeqNo: r})) // the requester's own number, not the fresh one
		}
		Settle(700 * time.Millisecond)
		delete(pending, fresh)
		acks, nacks := 0, 0
		for _, p := range R.Received()[nR:] {
			for _, l := range p.Info.Leaves {
				switch l.Type {
				case TAck:
					var a WAck
					if mpDecode(l.Body, &a) == nil {
						if a.SeqNo != r {
							fail("relayed-wrong-seq", "relayed ack carries %d, the requester's number is %d", a.SeqNo, r)
						}
						acks++
					}
				case TNack:
					var a WNack
					if mpDecode(l.Body, &a) == nil {
						if a.SeqNo != r {
							fail("nack-wrong-seq", "nack carries %d, the requester's number is %d", a.SeqNo, r)
						}
						nacks++
					}
				}
			}
		}
		wantAcks, wantNacks := 0, 0
		if mode == "ack-early" {
			wantAcks = 1
		} else if wantNack {
			wantNacks = 1
		}
		if acks != wantAcks || nacks != wantNacks {
			fail("relay-outcome/"+mode, "request r=%d nack=%v, target behaviour %s: requester got %d ack(s) and %d nack(s), expected %d and %d", r, wantNack, mode, acks, nacks, wantAcks, wantNacks)
			return
		}
	}
	// overlapping requests: two requesters ask about the same target at the same instant; each must be
	// served under its own sequence number, whether the target answers both forwarded pings or none
	R2 := rig.AddPeer("R2", "10.9.1.2", 7946)
	for k := 0; k < 12; k++ {
		r1, r2 := uint32(7000+k), uint32(8000+k)
		both := k%2 == 0
		nT, n1, n2 := len(T.Received()), len(R.Received()), len(R2.Received())
		R.Send(Enc(TIndirectPing, &WIndirectPing{SeqNo: r1, Target: []byte(T.EP.IP), Port: 7946, Node: "T", Nack: true, SourceAddr: []byte(R.EP.IP), SourcePort: 7946, SourceNode: "R"}))
		R2.Send(Enc(TIndirectPing, &WIndirectPing{SeqNo: r2, Target: []byte(T.EP.IP), Port: 7946, Node: "T", Nack: true, SourceAddr: []byte(R2.EP.IP), SourcePort: 7946, SourceNode: "R2"}))
		Settle(2 * time.Millisecond)
		var fresh []uint32
		for _, p := range T.Received()[nT:] {
			for _, l := range p.Info.Leaves {
				if l.Type == TPing {
					var pg WPing
					if mpDecode(l.Body, &pg) == nil {
						fresh = append(fresh, pg.SeqNo)
					}
				}
			}
		}
		run.Eval(1)
		run.Cell("relay", "overlap", fmt.Sprintf("target-answers=%v", both))
		if len(fresh) != 2 || fresh[0] == fresh[1] {
			fail("forward-count", "two overlapping indirect-ping requests produced forwarded pings %v", fresh)
			return
		}
		if both {
			Settle(50 * time.Millisecond)
			for _, f := range fresh {
				T.Send(Enc(TAck, &WAck{SeqNo: f}))
			}
		}
		Settle(700 * time.Millisecond)
		count := func(fp *FakePeer, from int, own uint32) (acks, nacks, foreign int) {
			for _, p := range fp.Received()[from:] {
				for _, l := range p.Info.Leaves {
					switch l.Type {
					case TAck:
						var a WAck
						if mpDecode(l.Body, &a) == nil {
							if a.SeqNo == own {
								acks++
							} else {
								foreign++
							}
						}
					case TNack:
						var a WNack
						if mpDecode(l.Body, &a) == nil {
							if a.SeqNo == own {
								nacks++
							} else {
								foreign++
							}
						}
					}
				}
			}
			return
		}
		a1, k1, f1 := count(R, n1, r1)
		a2, k2, f2 := count(R2, n2, r2)
		wa, wk := 0, 1
		if both {
			wa, wk = 1, 0
		}
		if a1 != wa || k1 != wk || a2 != wa || k2 != wk || f1 != 0 || f2 != 0 {
			fail("relay-outcome/overlap", "two requesters (r=%d and r=%d) asked about the same target at once, target answered both=%v: R got %d ack(s) %d nack(s) %d reply(ies) under a foreign number, R2 got %d/%d/%d; expected %d ack(s) and %d nack(s) each, none foreign", r1, r2, both, a1, k1, f1, a2, k2, f2, wa, wk)
			return
		}
	}
	Settle(time.Second)
	if n := rig.V.ML().VerifAckHandlers(); n != 0 {
		fail("handler-leak", "%d relay handlers remain after every probe timeout has passed", n)
	}
	if h := rig.V.ML().GetHealthScore(); h != 0 {
		fail("health", "relaying probes for others changed the node's own health score to %d", h)
	}
	return
}

func genC19(rng *rand.Rand) c19Scn {
	sc := c19Scn{
		Indirect: rng.Intn(4),
		Peers:    1 + rng.Intn(4),
		TCP:      rng.Intn(2) == 0,
		Health0:  []int{0, 0, 1, 3, 7}[rng.Intn(5)],
	}
	sc.OldPeers = rng.Intn(sc.Peers + 1)
	n := 3 + rng.Intn(6)
	for i := 0; i < n; i++ {
		a := c19Answer{Via: []string{"direct", "direct", "relay", "tcp", "none", "send-error"}[rng.Intn(6)]}
		a.SeqRel = []int{0, 0, 0, 1, -1, -100}[rng.Intn(6)]
		// offsets kept at least 5 ms away from the UDP timeout and from any deadline
		a.At = []time.Duration{20 * time.Millisecond, 250 * time.Millisecond, 450 * time.Millisecond, 900 * time.Millisecond, 1200 * time.Millisecond, 3500 * time.Millisecond, 9 * time.Second}[rng.Intn(7)]
		a.Dup = rng.Intn(4) == 0
		a.Nacks = rng.Intn(4)
		if a.Via == "tcp" {
			a.TCPKind = []string{"ack", "ack", "wrong-seq", "wrong-type", "garbage", "silent"}[rng.Intn(6)]
			a.At = []time.Duration{10 * time.Millisecond, 200 * time.Millisecond, 600 * time.Millisecond, 5 * time.Second}[rng.Intn(4)]
		}
		sc.Answers = append(sc.Answers, a)
	}
	sc.NearWrap = rng.Intn(4) == 0
	return sc
}

func TestC19(t *testing.T) {
	run := NewRun(t, "C19", "exploration",
		"One real node whose peers are all scripted fake peers, in virtual time. Prober: for every probe of the target the harness places the answer: an ack directly, via a third party, or as the TCP fallback reply (right ack / wrong sequence number / wrong type / garbage / silence), carrying the probe's number, +-1 or an old one, duplicated or not, before the UDP timeout, between it and the awareness-scaled deadline, or after the deadline (offsets kept away from the deadlines), with 0..k nacks from the indirect peers (some of which advertise PMax 3 and never nack); the initial health score is set by refutations. Oracle: answered (right number, before the deadline) <=> not suspected; the health score moves exactly by -1 / +missed nacks / +1 and stays in [0, max-1]. Relay: 60 indirect-ping requests per case with the target answering early, after the probe timeout, with a wrong number, not at all, or a third party acking: exactly one forwarded ping with a number that is not pending, exactly one relayed ack under the requester's number iff the target's ack came in time, exactly one nack iff requested and no timely ack, nothing else; no handler left, own health untouched. Cell = (via, seq relation, timing, tcp kind, indirect checks, health) / (relay mode, nack).")
	defer run.Finish()
	run.Assume("scripted arrivals stay >= 5 ms away from the UDP timeout and from every deadline (ties are the node's choice)", "the prober's deadline is read from the wire: ping time + (health score at that instant + 1) x ProbeInterval")
	n := run.Pick(400, 64000)
	for i := 0; i < n; i++ {
		if !run.Mine(i) {
			continue
		}
		id := fmt.Sprintf("probe/%d", i)
		if !run.Want(id) {
			continue
		}
		rng := run.RNG(id)
		sc := genC19(rng)
		run.Journal(id, "")
		var res []*c01Result
		err := Bubble(t, func() { res = runC19Probe(run, run.Seed()*29+int64(i), sc) })
		if err != nil {
			res = append(res, &c01Result{"C19/bubble", err.Error()})
		}
		for _, r := range res {
			key := r.Key
			if i := strings.Index(key, "/seq"); i > 0 && strings.HasPrefix(key, "C19/unanswered") {
				key = key[:i]
			}
			run.Violation(id, r.Key, r.What, sc)
		}
		if i == 0 {
			run.Sample(sc)
		}
	}
	nr := run.Pick(24, 4000)
	for i := 0; i < nr; i++ {
		if !run.Mine(i) {
			continue
		}
		id := fmt.Sprintf("relay/%d", i)
		if !run.Want(id) {
			continue
		}
		rng := run.RNG(id)
		run.Journal(id, "")
		var res []*c01Result
		err := Bubble(t, func() { res = runC19Relay(run, run.Seed()*31+int64(i), rng) })
		if err != nil {
			res = append(res, &c01Result{"C19/bubble", err.Error()})
		}
		for _, r := range res {
			run.Violation(id, r.Key, r.What, map[string]any{"case": i})
		}
	}
	if !run.Replaying() {
		run.Require("relay|ack-early|nack=true", "relay|ack-late|nack=true", "relay|no-ack|nack=true", "relay|no-ack|nack=false", "relay|ack-wrong-seq|nack=true", "relay|ack-from-other|nack=false", "relay|send-error|nack=true", "relay|send-error|nack=false", "relay|overlap|target-answers=true", "relay|overlap|target-answers=false", "probe-near-wrap|seq-above-2^31=true")
	}
	run.Complete()
	if run.Violations() > 0 {
		t.Errorf("%d violation(s)", run.Violations())
	}
}
