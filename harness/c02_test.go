package harness

// C02 — a running node always defends itself.

import (
	"bytes"
	"fmt"
	"math/rand"
	"sync"
	"testing"
	"time"

	"github.com/hashicorp/memberlist"
)

type accusation struct {
	Kind    string `json:"kind"` // suspect | dead | left | alive | alive-samecontent | alive-otheraddr | update
	Rel     string `json:"rel"`  // -1 | 0 | +1 | +1000 | far
	Path    string `json:"path"` // packet | compound | ping-piggyback | compress | pp | ppjoin
	From    string `json:"from,omitempty"`
	AltMeta bool   `json:"alt_meta,omitempty"`
	AltVsn  bool   `json:"alt_vsn,omitempty"`
	Inc     uint32 `json:"inc_resolved,omitempty"`
	// Kind == "batch": several accusations that arrive at the same instant (one compound packet, or
	// one packet each from two peers)
	Batch []accusation `json:"batch,omitempty"`
}

func genAccusation(rng *rand.Rand, last bool) accusation {
	a := accusation{
		Kind: []string{"suspect", "dead", "left", "alive", "alive", "alive-samecontent", "alive-otheraddr", "update"}[rng.Intn(8)],
		Rel:  []string{"-1", "0", "0", "+1", "+1", "+1000"}[rng.Intn(6)],
		Path: []string{"packet", "compound", "ping-piggyback", "compress", "pp", "ppjoin"}[rng.Intn(6)],
		From: []string{"x", "y", "ghost"}[rng.Intn(3)],
	}
	if !last && rng.Intn(8) == 0 {
		b := accusation{Kind: "batch", Rel: "-", Path: []string{"compound", "two-senders"}[rng.Intn(2)]}
		for k := 2 + rng.Intn(3); k > 0; k-- {
			sub := accusation{
				Kind: []string{"suspect", "dead", "left", "alive"}[rng.Intn(4)],
				Rel:  []string{"-1", "0", "+1", "+1", "+3", "+1000"}[rng.Intn(6)],
				From: []string{"x", "y", "ghost"}[rng.Intn(3)],
			}
			if sub.Kind == "alive" {
				sub.AltMeta = true
			}
			b.Batch = append(b.Batch, sub)
		}
		return b
	}
	if last && rng.Intn(2) == 0 {
		a.Rel = "far"
	}
	if a.Kind == "alive" {
		switch rng.Intn(3) {
		case 0:
			a.AltMeta = true
		case 1:
			a.AltVsn = true
		default:
			a.AltMeta, a.AltVsn = true, true
		}
	}
	return a
}

// runC02Seq drives one accusation sequence. Returns violations.
func runC02Seq(run *Run, seed int64, cfg c01Cfg, seq []accusation) (out []*c01Result, judged int) {
	var key []byte
	if cfg.Enc {
		key = bytes.Repeat([]byte{9}, 32)
	}
	rig, err := NewRig(RigOpts{Seed: seed, Label: cfg.Label, Key: key, Compress: cfg.Compress, Spec: NodeSpec{Name: "V", IP: "10.9.9.9", Meta: []byte("meta0"), Mutate: func(cf *memberlist.Config) {
		cf.ProbeInterval = noProbe
		cf.PushPullInterval = 0
	}}})
	if err != nil {
		return []*c01Result{{"C02/harness/create", err.Error()}}, 0
	}
	defer rig.Close()
	x := rig.AddPeer("x", "10.9.1.1", 7946)
	y := rig.AddPeer("y", "10.9.1.2", 7946)
	rig.Introduce(x, 1)
	rig.Introduce(y, 1)
	Settle(time.Millisecond)
	m := rig.V.ML()
	maxHealth := rig.V.Conf.AwarenessMaxMultiplier - 1
	fail := func(key, f string, a ...any) {
		out = append(out, &c01Result{"C02/" + key, fmt.Sprintf(f, a...)})
	}
	metaN := 0
	for si := range seq {
		a := &seq[si]
		before := rig.Snap()
		self := before.Rec("V")
		if self == nil {
			fail("invariant/self-missing", "no self record before step %d", si)
			return
		}
		own := self.Incarnation
		if a.Kind == "batch" {
			var msgs [][]byte
			var mustMax uint32
			nMust := 0
			for bi := range a.Batch {
				sub := &a.Batch[bi]
				var binc uint32
				switch sub.Rel {
				case "-1":
					binc = own - min(own, 1)
				case "0":
					binc = own
				case "+1":
					binc = own + 1
				case "+3":
					binc = own + 3
				default:
					binc = own + 1000
				}
				sub.Inc = binc
				switch sub.Kind {
				case "suspect":
					msgs = append(msgs, Enc(TSuspect, &WSuspect{Incarnation: binc, Node: "V", From: sub.From}))
				case "dead":
					msgs = append(msgs, Enc(TDead, &WDead{Incarnation: binc, Node: "V", From: sub.From}))
				case "left":
					msgs = append(msgs, Enc(TDead, &WDead{Incarnation: binc, Node: "V", From: "V"}))
				default:
					msgs = append(msgs, Enc(TAlive, &WAlive{Incarnation: binc, Node: "V", Addr: self.Addr, Port: self.Port, Meta: []byte("someone-elses-meta"), Vsn: self.Vsn[:]}))
				}
				if binc >= own {
					nMust++
					mustMax = max(mustMax, binc)
				}
			}
			if a.Path == "compound" {
				x.Send(MakeCompound(msgs))
			} else {
				for mi, mm := range msgs {
					if mi%2 == 0 {
						x.Send(mm)
					} else {
						y.Send(mm)
					}
				}
			}
			Settle(time.Millisecond)
			after := rig.Snap()
			ra := after.Rec("V")
			run.Eval(1)
			judged++
			run.Cell("accuse", "batch", fmt.Sprintf("must=%d", min(nMust, 3)), a.Path)
			desc := fmt.Sprintf("step %d batch %+v own-before=%d after=[%s]", si, a.Batch, own, recString(ra))
			if ra == nil || ra.State != memberlist.StateAlive {
				fail("invariant/self-not-alive", "after a batch of accusations the node does not hold itself alive: %s", desc)
				return
			}
			if _, ok := after.Members["V"]; !ok {
				fail("invariant/self-not-listed", "node missing from its own Members(): %s", desc)
				return
			}
			if !bytes.Equal(ra.Addr, self.Addr) || ra.Port != self.Port || !bytes.Equal(ra.Meta, self.Meta) {
				fail("invariant/self-addr-changed", "own address/meta changed: %s", desc)
				return
			}
			if nMust > 0 {
				if ra.Incarnation <= mustMax || ra.Incarnation <= own {
					fail("refute/incarnation/batch", "incarnation not strictly above every accusation of the batch (highest %d, own before %d, after %d): %s", mustMax, own, ra.Incarnation, desc)
					return
				}
				found := false
				for _, qe := range after.Queued {
					var al WAlive
					if len(qe.Msg) > 0 && qe.Msg[0] == TAlive && mpDecode(qe.Msg[1:], &al) == nil && al.Node == "V" && al.Incarnation == ra.Incarnation &&
						bytes.Equal(al.Addr, self.Addr) && al.Port == self.Port && bytes.Equal(al.Meta, self.Meta) && bytes.Equal(al.Vsn, self.Vsn[:]) {
						found = true
					}
				}
				if !found {
					fail("refute/no-alive-queued/batch", "no alive message carrying the final incarnation %d and the node's own description is queued: %s", ra.Incarnation, desc)
					return
				}
				lo, hi := min(before.Health+1, maxHealth), min(before.Health+nMust, maxHealth)
				if after.Health < lo || after.Health > hi {
					fail("refute/health/batch", "health score %d -> %d, expected within [%d,%d] after %d accusations to refute: %s", before.Health, after.Health, lo, hi, nMust, desc)
				}
			} else {
				if ra.Incarnation != own || after.Health != before.Health || countAliveAbout(after.Queued, "V") > countAliveAbout(before.Queued, "V") {
					fail("stale/batch", "a batch of stale claims about self changed something (inc %d -> %d, health %d -> %d): %s", own, ra.Incarnation, before.Health, after.Health, desc)
					return
				}
			}
			rig.C.CheckQuiescent()
			for _, p := range rig.C.Problems() {
				out = append(out, &c01Result{p.Key, p.What + " | " + desc})
			}
			if len(out) > 0 {
				return
			}
			continue
		}
		var inc uint32
		switch a.Rel {
		case "-1":
			if own == 0 {
				continue
			}
			inc = own - 1
		case "0":
			inc = own
		case "+1":
			inc = own + 1
		case "+1000":
			inc = own + 1000
		case "far":
			inc = 4294967294 - uint32(rig.Rng.Intn(5))
		}
		a.Inc = inc
		if a.Kind == "update" {
			metaN++
			rig.V.Del.SetMeta([]byte(fmt.Sprintf("meta%d", metaN)))
			if err := m.UpdateNode(2 * time.Second); err != nil {
				// a timeout is allowed (nobody acks gossip); not judged here
				_ = err
			}
			Settle(10 * time.Microsecond)
			after := rig.Snap()
			ra := after.Rec("V")
			if ra == nil || ra.Incarnation <= own || !bytes.Equal(ra.Meta, rig.V.Del.NodeMeta(512)) {
				fail("update", "UpdateNode did not raise the incarnation / adopt the new meta: before inc %d, after %s", own, recString(ra))
				return
			}
			run.Cell("accuse", "update", "-", "api")
			judged++
			continue
		}
		meta := append([]byte(nil), self.Meta...)
		vsn := append([]uint8(nil), self.Vsn[:]...)
		addr := append([]byte(nil), self.Addr...)
		if a.AltMeta {
			meta = []byte("someone-elses-meta")
			if si%3 == 1 {
				// ... of the maximum size the protocol allows
				meta = bytes.Repeat([]byte{'M'}, memberlist.MetaMaxSize)
				run.Cell("accuse", "alt-meta-512-bytes", a.Path)
			}
		}
		if a.AltVsn {
			vsn = []uint8{1, 4, 3, 0, 0, 0}
		}
		if a.Kind == "alive-otheraddr" {
			addr = []byte{10, 66, 66, 66}
		}
		var msg []byte
		var ppState int
		switch a.Kind {
		case "suspect":
			msg = Enc(TSuspect, &WSuspect{Incarnation: inc, Node: "V", From: a.From})
			ppState = SSuspect
		case "dead":
			msg = Enc(TDead, &WDead{Incarnation: inc, Node: "V", From: a.From})
			ppState = SDead
		case "left":
			msg = Enc(TDead, &WDead{Incarnation: inc, Node: "V", From: "V"})
			ppState = SLeft
		default:
			msg = Enc(TAlive, &WAlive{Incarnation: inc, Node: "V", Addr: addr, Port: self.Port, Meta: meta, Vsn: vsn})
			ppState = SAlive
		}
		pingSeq := uint32(0)
		nPktBefore := len(x.Received())
		switch a.Path {
		case "packet":
			x.Send(msg)
		case "compound":
			x.Send(MakeCompound([][]byte{msg, Enc(TNack, &WNack{SeqNo: 0xfffffff1})}))
		case "ping-piggyback":
			pingSeq = 70000 + uint32(si)
			x.Send(MakeCompound([][]byte{Enc(TPing, &WPing{SeqNo: pingSeq, Node: "V", SourceAddr: []byte(x.EP.IP), SourcePort: uint16(x.EP.Port), SourceNode: "x"}), msg}))
		case "compress":
			x.Send(LZWCompress(msg))
		case "pp", "ppjoin":
			entry := WPushNodeState{Name: "V", Addr: addr, Port: self.Port, Meta: meta, Incarnation: inc, State: ppState, Vsn: vsn}
			if _, _, err := x.PushPull(a.Path == "ppjoin", []WPushNodeState{x.Self(1), entry}, nil); err != nil {
				fail("harness/pp", "push/pull failed: %v", err)
				return
			}
		}
		Settle(time.Millisecond)
		after := rig.Snap()
		ra := after.Rec("V")
		run.Eval(1)
		judged++
		run.Cell("accuse", a.Kind, a.Rel, a.Path)
		desc := fmt.Sprintf("step %d %+v own-before=%d after=[%s]", si, *a, own, recString(ra))
		// invariants
		if ra == nil || ra.State != memberlist.StateAlive {
			fail("invariant/self-not-alive", "after an accusation the node does not hold itself alive: %s", desc)
			return
		}
		if _, ok := after.Members["V"]; !ok {
			fail("invariant/self-not-listed", "node missing from its own Members(): %s", desc)
			return
		}
		if !bytes.Equal(ra.Addr, self.Addr) || ra.Port != self.Port {
			fail("invariant/self-addr-changed", "own address changed: %s", desc)
			return
		}
		if after.Health < 0 || after.Health > maxHealth {
			fail("health-range", "health score %d outside [0,%d]", after.Health, maxHealth)
		}
		if pingSeq != 0 {
			acked := false
			for _, p := range x.Received()[nPktBefore:] {
				for _, l := range p.Info.Leaves {
					if l.Type == TAck {
						var ack WAck
						if mpDecode(l.Body, &ack) == nil && ack.SeqNo == pingSeq {
							acked = true
						}
					}
				}
			}
			if !acked {
				fail("ping-not-acked", "ping carrying a piggybacked accusation was not acknowledged: %s", desc)
			}
		}
		// is this an accusation that must be refuted?
		must := false
		stale := false
		switch a.Kind {
		case "suspect", "dead", "left":
			must = inc >= own
			stale = inc < own
		case "alive":
			must = inc > own || (inc == own && (a.AltMeta || a.AltVsn))
			stale = inc < own
		case "alive-samecontent":
			must = inc > own
			stale = inc <= own
		case "alive-otheraddr":
			// a second claimant of the name, not an accusation: invariants only
			continue
		}
		if a.Path == "pp" || a.Path == "ppjoin" {
			// a push/pull that carries an incompatible version vector is rejected as a whole
			if a.AltVsn && a.Kind == "alive" {
				must, stale = false, false
			}
		}
		newAlive := func() (found bool, why string) {
			for _, qe := range after.Queued {
				q := qe.Msg
				if len(q) == 0 || q[0] != TAlive {
					continue
				}
				var al WAlive
				if mpDecode(q[1:], &al) != nil || al.Node != "V" {
					continue
				}
				if al.Incarnation != ra.Incarnation {
					why = fmt.Sprintf("queued alive carries incarnation %d, record says %d", al.Incarnation, ra.Incarnation)
					continue
				}
				if !bytes.Equal(al.Addr, self.Addr) || al.Port != self.Port || !bytes.Equal(al.Meta, self.Meta) || !bytes.Equal(al.Vsn, self.Vsn[:]) {
					why = fmt.Sprintf("queued alive describes %v:%d meta=%q vsn=%v, own is %v:%d meta=%q vsn=%v", al.Addr, al.Port, al.Meta, al.Vsn, self.Addr, self.Port, self.Meta, self.Vsn)
					continue
				}
				return true, ""
			}
			return false, why
		}
		if must {
			if ra.Incarnation <= inc || ra.Incarnation <= own {
				fail("refute/incarnation/"+a.Kind, "incarnation not raised strictly above the accusation (accused %d, own before %d, after %d): %s", inc, own, ra.Incarnation, desc)
				return
			}
			if ok, why := newAlive(); !ok {
				fail("refute/no-alive-queued/"+a.Kind, "no alive message carrying the new incarnation %d is queued for gossip (%s): %s", ra.Incarnation, why, desc)
				return
			}
			wantH := before.Health + 1
			if wantH > maxHealth {
				wantH = maxHealth
			}
			if after.Health != wantH {
				fail("refute/health/"+a.Kind, "health score %d -> %d, expected %d after a refutation: %s", before.Health, after.Health, wantH, desc)
			}
			if a.Rel == "far" {
				return // next incarnation would leave the representable range
			}
		} else if stale {
			if ra.Incarnation != own {
				fail("stale/incarnation/"+a.Kind, "stale claim about self changed the incarnation %d -> %d: %s", own, ra.Incarnation, desc)
				return
			}
			if after.Health != before.Health {
				fail("stale/health/"+a.Kind, "stale claim about self changed the health score %d -> %d: %s", before.Health, after.Health, desc)
			}
			nb, na := countAliveAbout(before.Queued, "V"), countAliveAbout(after.Queued, "V")
			if na > nb {
				fail("stale/requeued/"+a.Kind, "stale claim about self queued a broadcast: %s", desc)
			}
		}
		rig.C.CheckQuiescent()
		for _, p := range rig.C.Problems() {
			out = append(out, &c01Result{p.Key, p.What + " | " + desc})
		}
		if len(out) > 0 {
			return
		}
	}
	return
}

// restart scenario on real nodes: peers remember a higher incarnation
func runC02Restart(run *Run, seed int64, deadFirst bool, bumps int) (out []*c01Result) {
	c := NewCluster(seed)
	defer c.Drain()
	fail := func(key, f string, a ...any) {
		out = append(out, &c01Result{"C02/" + key, fmt.Sprintf(f, a...)})
	}
	mut := func(cf *memberlist.Config) {
		cf.PushPullInterval = 5 * time.Second
		cf.GossipToTheDeadTime = 10 * time.Minute
	}
	for i := 0; i < 4; i++ {
		if _, err := c.Add(NodeSpec{Name: fmt.Sprintf("n%d", i), Meta: []byte(fmt.Sprintf("old%d", i)), Mutate: mut}); err != nil {
			fail("harness/create", "%v", err)
			return
		}
	}
	if err := c.FullMesh(); err != nil {
		fail("harness/join", "%v", err)
		return
	}
	Settle(2 * time.Second)
	victim := c.Nodes[1]
	for b := 0; b < bumps; b++ {
		victim.Del.SetMeta([]byte(fmt.Sprintf("bump%d", b)))
		_ = victim.ML().UpdateNode(3 * time.Second)
	}
	Settle(3 * time.Second)
	ip, port := victim.EP.IP.String(), victim.EP.Port
	c.Crash(victim)
	if deadFirst {
		Settle(40 * time.Second) // peers detect the crash and declare it dead
	} else {
		Settle(300 * time.Millisecond)
	}
	remembered := uint32(0)
	for _, n := range c.Nodes {
		if n.Stopped {
			continue
		}
		if r := n.Record("n1"); r != nil && r.Incarnation > remembered {
			remembered = r.Incarnation
		}
	}
	if remembered < 2 {
		fail("harness/restart-premise", "peers do not remember a higher incarnation (%d)", remembered)
		return
	}
	nv, err := c.Add(NodeSpec{Name: "n1", IP: ip, Port: port, Meta: []byte("fresh"), Mutate: mut})
	if err != nil {
		fail("harness/restart", "%v", err)
		return
	}
	if _, err := nv.ML().Join([]string{c.Nodes[0].EP.Addr}); err != nil {
		fail("harness/rejoin", "%v", err)
		return
	}
	poll := 0
	for ; poll < 200; poll++ {
		Settle(500 * time.Millisecond)
		c.CheckQuiescent()
		if ps := c.Problems(); len(ps) > 0 {
			for _, p := range ps {
				out = append(out, &c01Result{p.Key, p.What})
			}
			return
		}
	}
	run.Count("restart_quiescent_checks", int64(poll))
	self := nv.Record("n1")
	if self == nil || self.Incarnation <= remembered {
		fail("restart/incarnation", "restarted node (peers remembered incarnation %d, deadFirst=%v) ended with own record %s", remembered, deadFirst, recString(self))
		return
	}
	for _, n := range c.Nodes {
		if n.Stopped {
			continue
		}
		r := n.Record("n1")
		if r == nil || r.State != memberlist.StateAlive || r.Incarnation != self.Incarnation || string(r.Meta) != "fresh" {
			fail("restart/peer-view", "%s holds the restarted node as %s, owner says %s", n.Name, recString(r), recString(self))
		}
	}
	return
}

func TestC02(t *testing.T) {
	run := NewRun(t, "C02", "exploration",
		"(a) one real node + fake peers: PRNG sequences of accusations about the node itself (suspect, dead, self-dead, alive newer / equal with other meta or versions / identical / other address, UpdateNode in between) x incarnation relation {own-1, own, own+1, own+1000, 2^32-2-k} x path {packet, compound, piggybacked on a ping, compressed, push/pull, join push/pull}; after each: self record alive and listed, address unchanged, the ping is still acked; an accusation at >= own incarnation => incarnation strictly above it, an alive message with exactly that incarnation and the node's own address/meta/versions queued, health +1 (clamped); a stale one => no change at all; every 8th step is a BATCH of 2-4 accusations arriving at the same instant (one compound packet, or packets from two peers): final incarnation strictly above every accusation at >= the prior own incarnation, one alive with the final incarnation and the node's own description queued, health up by between 1 and the number of such accusations (clamped), all-stale batches change nothing. (b) 4-node clusters where a node is restarted on the same address while peers remember a higher incarnation (alive or already dead); the invariant monitor runs at every poll. Cell = (kind, relation, path).")
	defer run.Finish()
	run.Assume("an alive claim naming the node from a different address is a competing claimant (judged by C08), only the invariants are asserted for it", "a push/pull whose entries fail the version compatibility check is rejected as a whole (C09)")
	cfgs := []c01Cfg{{"", false, false, 0, false, false, false}, {"lbl", true, false, 0, false, false, false}, {"", false, true, 0, true, false, false}}

	// explicit cross product
	kinds := []string{"suspect", "dead", "left", "alive"}
	rels := []string{"-1", "0", "+1", "+1000", "far"}
	paths := []string{"packet", "compound", "ping-piggyback", "compress", "pp", "ppjoin"}
	ci := 0
	for _, p := range paths {
		for _, k := range kinds {
			ci++
			id := fmt.Sprintf("cross/%s/%s", p, k)
			if !run.Replaying() {
				for _, r := range rels {
					run.Require(fmt.Sprintf("accuse|%s|%s|%s", k, r, p))
				}
			}
			if !run.Mine(ci) || !run.Want(id) {
				continue
			}
			run.Journal(id, "")
			var seq []accusation
			for _, r := range rels {
				a := accusation{Kind: k, Rel: r, Path: p, From: "x"}
				if k == "alive" {
					a.AltMeta = true
				}
				seq = append(seq, a)
			}
			var res []*c01Result
			err := Bubble(t, func() { res, _ = runC02Seq(run, run.Seed()+int64(ci), cfgs[ci%len(cfgs)], seq) })
			if err != nil {
				res = append(res, &c01Result{"C02/bubble", err.Error()})
			}
			for _, r := range res {
				run.Violation(id, r.Key, r.What, map[string]any{"cfg": cfgs[ci%len(cfgs)].String(), "seq": seq})
			}
		}
	}
	if !run.Replaying() {
		run.Require("accuse|batch|must=2|compound", "accuse|batch|must=2|two-senders", "accuse|batch|must=3|compound", "accuse|batch|must=3|two-senders")
	}
	n := run.Pick(500, 160000)
	for i := 0; i < n; i++ {
		if !run.Mine(i) {
			continue
		}
		id := fmt.Sprintf("seq/%d", i)
		if !run.Want(id) {
			continue
		}
		rng := run.RNG(id)
		cfg := cfgs[rng.Intn(len(cfgs))]
		steps := 6 + rng.Intn(20)
		var seq []accusation
		for s := 0; s < steps; s++ {
			seq = append(seq, genAccusation(rng, s == steps-1))
		}
		run.Journal(id, cfg.String())
		var res []*c01Result
		judged := 0
		err := Bubble(t, func() { res, judged = runC02Seq(run, run.Seed()*31+int64(i), cfg, seq) })
		if err != nil {
			res = append(res, &c01Result{"C02/bubble", err.Error()})
		}
		for _, r := range res {
			run.Violation(id, r.Key, r.What, map[string]any{"cfg": cfg.String(), "seq": seq, "judged": judged})
		}
		if i == 0 {
			run.Sample(map[string]any{"cfg": cfg.String(), "accusations": seq})
		}
	}
	nr := run.Pick(12, 3000)
	for i := 0; i < nr; i++ {
		if !run.Mine(i) {
			continue
		}
		id := fmt.Sprintf("restart/%d", i)
		if !run.Want(id) {
			continue
		}
		run.Journal(id, "")
		deadFirst := i%2 == 1
		bumps := 1 + i%4
		var res []*c01Result
		err := Bubble(t, func() { res = runC02Restart(run, run.Seed()*131+int64(i), deadFirst, bumps) })
		if err != nil {
			res = append(res, &c01Result{"C02/bubble", err.Error()})
		}
		run.Eval(1)
		run.Cell("restart", fmt.Sprintf("deadFirst=%v", deadFirst))
		for _, r := range res {
			run.Violation(id, r.Key, r.What, map[string]any{"deadFirst": deadFirst, "bumps": bumps})
		}
	}
	if !run.Replaying() {
		run.Require("restart|deadFirst=true", "restart|deadFirst=false")
	}
	for i := 0; i < run.Pick(16, 800); i++ {
		id := fmt.Sprintf("alone/%d", i)
		if !run.Mine(i) || !run.Want(id) {
			continue
		}
		run.Journal(id, "")
		rng := run.RNG(id)
		var res []*c01Result
		err := Bubble(t, func() { res = runC02Alone(run, run.Seed()*149+int64(i), i, rng) })
		if err != nil {
			res = append(res, &c01Result{"C02/bubble", err.Error()})
		}
		run.Eval(1)
		for _, r := range res {
			run.Violation(id, r.Key, r.What, map[string]any{"case": i})
		}
	}
	if !run.Replaying() {
		run.Require("alone|never-had-peers", "alone|peers-long-dead", "alone|big-backlog")
	}
	run.Complete()
	if run.Violations() > 0 {
		t.Errorf("%d violation(s)", run.Violations())
	}
}

func countAliveAbout(q []memberlist.VerifQueuedMsg, node string) int {
	n := 0
	for _, e := range q {
		if len(e.Msg) > 0 && e.Msg[0] == TAlive {
			var al WAlive
			if mpDecode(e.Msg[1:], &al) == nil && al.Node == node {
				n++
			}
		}
	}
	return n
}

// runC02Alone: the accusation reaches the node while it has nobody to gossip to - it has just (re)started and knows
// only itself, or every peer it knew has been dead for longer than GossipToTheDeadTime. It refutes all the same;
// the refutation has to survive the idle gossip rounds and go out as soon as a peer is known, otherwise the
// accusation is never overridden.
func runC02Alone(run *Run, seed int64, caseNo int, rng *rand.Rand) (out []*c01Result) {
	fail := func(key, f string, a ...any) {
		out = append(out, &c01Result{"C02/alone/" + key, fmt.Sprintf(f, a...)})
	}
	mode := []string{"never-had-peers", "peers-long-dead"}[caseNo%2]
	if caseNo%8 == 2 {
		mode = "big-backlog" // (costly: thousands of members)
	}
	// (the event monitor compares the whole table inside every callback: quadratic in the thousands of members of
	// the backlog scenario, which is about the broadcast queue, so it runs without it)
	rig, err := NewRig(RigOpts{Seed: seed, Spec: NodeSpec{Name: "V", IP: "10.9.9.9", NoEvents: mode == "big-backlog", Mutate: func(cf *memberlist.Config) {
		cf.ProbeInterval = noProbe
		cf.PushPullInterval = 0
		cf.GossipInterval = 200 * time.Millisecond
		cf.GossipToTheDeadTime = 2 * time.Second
	}}})
	if err != nil {
		fail("harness/create", "%v", err)
		return
	}
	defer rig.Close()
	x := rig.AddPeer("x", "10.9.1.1", 7946)
	// every datagram the node sends, whoever it is addressed to
	var tapMu sync.Mutex
	sentAlive := map[uint32]int{} // incarnation -> datagrams carrying an alive message about the node with it
	rig.C.Net.OnPacket = append(rig.C.Net.OnPacket, func(ev *PacketEvent) {
		if ev.From != rig.V.EP.Addr || ev.Closed {
			return
		}
		pi := ParsePacket(ev.Buf, rig.Keys)
		if pi.Err != nil {
			return
		}
		for _, l := range pi.Leaves {
			var a WAlive
			if l.Type == TAlive && mpDecode(l.Body, &a) == nil && a.Node == "V" {
				tapMu.Lock()
				sentAlive[a.Incarnation]++
				tapMu.Unlock()
			}
		}
	})
	if mode == "big-backlog" {
		// the node has just learnt of thousands of members in one state exchange: its broadcast queue holds
		// thousands of announcements that have not been transmitted once, all longer than its own
		rig.Introduce(x, 1)
		Settle(time.Millisecond)
		nodes := []WPushNodeState{x.Self(1)}
		for i := 0; i < 5000; i++ {
			nodes = append(nodes, WPushNodeState{Name: fmt.Sprintf("member-%04d", i), Addr: []byte{10, 20, byte(i / 250), byte(1 + i%250)}, Port: 7946, Incarnation: 1, State: SAlive, Meta: []byte("some-metadata"), Vsn: DefaultVsn()})
		}
		if _, _, err := x.PushPull(false, nodes, nil); err != nil {
			fail("harness/pushpull", "%v", err)
			return
		}
		Settle(time.Millisecond)
		if n := rig.V.ML().NumMembers(); n < 5000 {
			fail("harness/backlog", "only %d members after the exchange", n)
			return
		}
		own := rig.V.Record("V")
		acc := own.Incarnation + uint32(rng.Intn(2))
		x.Send(Enc(TSuspect, &WSuspect{Incarnation: acc, Node: "V", From: "x"}))
		Settle(time.Millisecond)
		after := rig.V.Record("V")
		if after == nil || after.Incarnation <= acc || after.State != memberlist.StateAlive {
			fail("refute/incarnation", "accused at incarnation %d with %d broadcasts queued; own record now %s", acc, rig.V.ML().VerifNumQueued(), recString(after))
			return
		}
		newInc := after.Incarnation
		run.Cell("alone", mode)
		queued := func() bool {
			for _, q := range rig.V.ML().VerifQueued() {
				var a WAlive
				if len(q.Msg) > 1 && q.Msg[0] == TAlive && mpDecode(q.Msg[1:], &a) == nil && a.Node == "V" && a.Incarnation == newInc {
					return true
				}
			}
			return false
		}
		sent := func() int { tapMu.Lock(); defer tapMu.Unlock(); return sentAlive[newInc] }
		for waited := time.Duration(0); waited < 10*time.Minute; waited += 2 * time.Second {
			if sent() > 0 {
				return
			}
			if !queued() {
				fail("refutation-discarded", "the node refuted an accusation (incarnation %d -> %d) while %d other broadcasts were queued; %v later the alive message with incarnation %d is not queued any more and no datagram has carried it", acc, newInc, 5000, waited, newInc)
				return
			}
			Settle(2 * time.Second)
		}
		fail("refutation-never-gossiped", "the node refuted an accusation (incarnation %d -> %d) behind a backlog of 5000 broadcasts; 10 minutes of gossip rounds later no datagram has carried the alive message with incarnation %d (still queued: %v)", acc, newInc, newInc, queued())
		return
	}
	if mode == "peers-long-dead" {
		rig.Introduce(x, 1)
		Settle(time.Millisecond)
		x.Send(Enc(TDead, &WDead{Incarnation: 1, Node: "x", From: "x"}))
		Settle(5 * time.Second) // beyond GossipToTheDeadTime, broadcasts about x drained
	}
	Settle(2 * time.Second) // the node's own first announcement has used up its transmissions (nobody to send to: it stays)
	m := rig.V.ML()
	own := rig.V.Record("V")
	if own == nil {
		fail("harness/no-self", "no own record")
		return
	}
	before := len(x.Received())
	acc := own.Incarnation + uint32(rng.Intn(3))
	kind := []string{"suspect", "dead"}[rng.Intn(2)]
	if kind == "suspect" {
		x.Send(Enc(TSuspect, &WSuspect{Incarnation: acc, Node: "V", From: "x"}))
	} else {
		x.Send(Enc(TDead, &WDead{Incarnation: acc, Node: "V", From: "x"}))
	}
	Settle(time.Millisecond)
	after := rig.V.Record("V")
	if after == nil || after.Incarnation <= acc || after.State != memberlist.StateAlive {
		fail("refute/incarnation", "accused (%s) at incarnation %d while alone; own record now %s", kind, acc, recString(after))
		return
	}
	newInc := after.Incarnation
	idle := time.Duration(1+rng.Intn(5)) * time.Second
	Settle(idle) // 5-25 gossip rounds with nobody to gossip to
	run.Cell("alone", mode)
	queuedHas := func() bool {
		for _, q := range m.VerifQueued() {
			var a WAlive
			if len(q.Msg) > 1 && q.Msg[0] == TAlive && mpDecode(q.Msg[1:], &a) == nil && a.Node == "V" && a.Incarnation == newInc {
				return true
			}
		}
		return false
	}
	sentTo := 0
	for _, p := range x.Received()[before:] {
		for _, l := range p.Info.Leaves {
			var a WAlive
			if l.Type == TAlive && mpDecode(l.Body, &a) == nil && a.Node == "V" && a.Incarnation == newInc {
				sentTo++
			}
		}
	}
	if sentTo == 0 && !queuedHas() {
		fail("refutation-discarded", "the node refuted a %s accusation (incarnation %d -> %d) while it had nobody to gossip to (%s); %v of idle gossip rounds later the alive message with incarnation %d is neither queued any more nor has it been sent to anyone", kind, acc, newInc, mode, idle, newInc)
		return
	}
	// a peer becomes known: the refutation must reach it
	rig.Introduce(x, 3)
	Settle(3 * time.Second)
	for _, p := range x.Received()[before:] {
		for _, l := range p.Info.Leaves {
			var a WAlive
			if l.Type == TAlive && mpDecode(l.Body, &a) == nil && a.Node == "V" && a.Incarnation == newInc {
				sentTo++
			}
		}
	}
	if sentTo == 0 {
		fail("refutation-never-gossiped", "the node refuted a %s accusation (incarnation %d -> %d) while it had nobody to gossip to (%s); a peer became known %v later and in the next 3 s it received no alive message about the node with incarnation %d", kind, acc, newInc, mode, idle, newInc)
	}
	return
}
