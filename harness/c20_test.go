package harness

// C20 — lifecycle safety: Leave/Shutdown and the query API in any order and interleaving.

import (
	"fmt"
	"io"
	"log"
	"math/rand"
	"net"
	"runtime"
	"strings"
	"sync"
	"sync/atomic"
	"testing"
	"time"

	"github.com/hashicorp/memberlist"
)

var c20Calls = []string{"Members", "NumMembers", "LocalNode", "UpdateNode", "Join", "Leave", "Shutdown", "SendBestEffort", "SendReliable", "SendToAddress", "Ping", "GetHealthScore", "ProtocolVersion"}
var c20Stages = []string{"created", "joined", "leaving", "left", "left-and-reaped", "shutdown"}

type c20Result struct {
	Call     string
	Panic    string
	Returned bool
	Err      string
	Took     time.Duration
}

// doCall performs one public API call under recover.
func doCall(m *memberlist.Memberlist, call string, peer *memberlist.Node, peerAddr string, res *c20Result) {
	t0 := time.Now()
	defer func() {
		if e := recover(); e != nil {
			res.Panic = fmt.Sprint(e)
		}
		res.Took = time.Since(t0)
		res.Returned = true
	}()
	var err error
	switch call {
	case "Members":
		for _, n := range m.Members() {
			_ = n.Name
		}
	case "NumMembers":
		_ = m.NumMembers()
	case "LocalNode":
		n := m.LocalNode()
		_ = n.Name
	case "UpdateNode":
		err = m.UpdateNode(2 * time.Second)
	case "Join":
		_, err = m.Join([]string{peerAddr})
	case "Leave":
		err = m.Leave(2 * time.Second)
	case "Shutdown":
		err = m.Shutdown()
	case "SendBestEffort":
		err = m.SendBestEffort(peer, []byte("c20-best-effort"))
	case "SendReliable":
		err = m.SendReliable(peer, []byte("c20-reliable"))
	case "SendToAddress":
		err = m.SendToAddress(memberlist.Address{Addr: peerAddr, Name: peer.Name}, []byte("c20-to-address"))
	case "Ping":
		_, err = m.Ping(peer.Name, simAddr{peerAddr})
	case "GetHealthScore":
		_ = m.GetHealthScore()
	case "ProtocolVersion":
		_ = m.ProtocolVersion()
	}
	if err != nil {
		res.Err = err.Error()
	}
}

type c20Case struct {
	Stage    string   `json:"stage"`
	Calls    []string `json:"calls"`
	SlowShut bool     `json:"transport_shutdown_takes_time"`
}

func runC20Stage(run *Run, seed int64, cs c20Case) (out []*c01Result) {
	fail := func(key, f string, a ...any) {
		if len(out) < 8 {
			out = append(out, &c01Result{"C20/" + key, fmt.Sprintf(f, a...) + fmt.Sprintf(" [stage %s calls %v]", cs.Stage, cs.Calls)})
		}
	}
	rig, err := NewRig(RigOpts{Seed: seed, Spec: NodeSpec{Name: "V", IP: "10.9.9.9", Mutate: func(cf *memberlist.Config) {
		cf.ProbeInterval = time.Second
		cf.ProbeTimeout = 300 * time.Millisecond
		cf.GossipInterval = 500 * time.Millisecond // a Leave stays in progress for a while
		cf.PushPullInterval = 4 * time.Second
		cf.GossipToTheDeadTime = 3 * time.Second
		cf.TCPTimeout = 2 * time.Second
	}}})
	if err != nil {
		fail("harness/create", "%v", err)
		return
	}
	V := rig.V
	m := V.ML()
	var shutGate chan struct{}
	if cs.SlowShut {
		// The transport's Shutdown blocks until released. (A sleep on the fake clock would wedge the
		// bubble: a second Shutdown caller parked on the mutex is not 'durably blocked', so virtual
		// time could never advance.) The gate opens after a burst of scheduler yields, which gives a
		// Shutdown call that wrongly returns early plenty of room to do so.
		shutGate = make(chan struct{})
		V.EP.ShutdownGate = shutGate
	}
	x := rig.AddPeer("x", "10.9.1.1", 7946)
	y := rig.AddPeer("y", "10.9.1.2", 7946)
	for _, p := range []*FakePeer{x, y} {
		p := p
		p.AutoAck = true
		p.OnStream = func(c *ConnEnd) {
			// answer anything with a valid state of ours, read what comes, close
			_ = ReadAllUntil(c, 20*time.Millisecond)
			_, _ = c.Write(BuildPushPull(false, []WPushNodeState{p.Self(1)}, nil))
			time.Sleep(50 * time.Millisecond)
			c.Close()
		}
	}
	peerNode := &memberlist.Node{Name: "x", Addr: net.IP(x.EP.IP), Port: 7946, PMin: 1, PMax: 5, PCur: 5}
	shutDone := false
	// move to the stage
	switch cs.Stage {
	case "created":
	default:
		rig.Introduce(x, 1)
		rig.Introduce(y, 1)
		Settle(1500 * time.Millisecond)
	}
	var bgLeave chan struct{}
	switch cs.Stage {
	case "leaving":
		bgLeave = make(chan struct{})
		go func() {
			defer close(bgLeave)
			defer func() { _ = recover() }()
			_ = m.Leave(5 * time.Second)
		}()
		time.Sleep(time.Millisecond) // the flag is up, the broadcast not yet out
	case "left", "left-and-reaped", "shutdown":
		if err := m.Leave(5 * time.Second); err != nil && cs.Stage != "shutdown" {
			fail("harness/leave", "%v", err)
		}
		if cs.Stage == "left-and-reaped" {
			reaped := false
			for i := 0; i < 400 && !reaped; i++ {
				Settle(100 * time.Millisecond)
				reaped = true
				for _, r := range m.VerifDump().Records {
					if r.Name == "V" {
						reaped = false
					}
				}
			}
			run.Cell("self-record-reaped", fmt.Sprint(reaped))
		}
		if cs.Stage == "shutdown" {
			if shutGate != nil {
				close(shutGate)
				shutGate = nil
			}
			_ = m.Shutdown()
			shutDone = true
		}
	}
	okAtShutdown := V.EP.WritesOK.Load()
	// the calls, all at the same instant from separate goroutines
	results := make([]*c20Result, len(cs.Calls))
	var wg sync.WaitGroup
	var shutReturned atomic.Bool
	var sentAfterShutdownReturn atomic.Int64
	for i, call := range cs.Calls {
		results[i] = &c20Result{Call: call}
		wg.Add(1)
		go func(i int, call string) {
			defer wg.Done()
			doCall(m, call, peerNode, x.EP.Addr, results[i])
			if call == "Shutdown" && results[i].Panic == "" {
				// the moment any Shutdown call has returned nothing may reach the network any more
				shutReturned.Store(true)
				// judged by this very send (other goroutines' sends may have been admitted by the
				// transport just before it closed): it must be refused
				if err := m.SendBestEffort(peerNode, []byte("after-shutdown-returned")); err == nil {
					sentAfterShutdownReturn.Add(1)
				}
			}
		}(i, call)
	}
	if shutGate != nil {
		go func() {
			for i := 0; i < 20000; i++ {
				runtime.Gosched()
			}
			close(shutGate)
		}()
	}
	done := make(chan struct{})
	go func() { wg.Wait(); close(done) }()
	select {
	case <-done:
	case <-time.After(30 * time.Second): // virtual: every timeout involved (2-5 s) is long past
	}
	Settle(0)
	for _, r := range results {
		run.Eval(1)
		conc := "alone"
		if len(cs.Calls) > 1 {
			conc = "concurrent"
		}
		run.Cell("call", cs.Stage, r.Call, conc)
		if !r.Returned {
			fail("blocked/"+r.Call+"@"+cs.Stage, "%s did not return within 30 virtual seconds (every timeout it was given is 2-5 s)", r.Call)
			continue
		}
		if r.Panic != "" {
			if r.Call == "Leave" && strings.Contains(r.Panic, "leave after shutdown") && (cs.Stage == "shutdown" || contains(cs.Calls, "Shutdown")) {
				continue // the documented exception
			}
			fail("panic/"+r.Call+"@"+cs.Stage, "%s panicked: %s", r.Call, r.Panic)
		}
		if r.Call == "Leave" && r.Took > 2*time.Second+50*time.Millisecond {
			fail("leave-overran/"+cs.Stage, "Leave(2s) returned after %v", r.Took)
		}
		if r.Call == "UpdateNode" && r.Took > 2*time.Second+50*time.Millisecond {
			fail("updatenode-overran/"+cs.Stage, "UpdateNode(2s) returned after %v", r.Took)
		}
	}
	if n := sentAfterShutdownReturn.Load(); n > 0 {
		fail("sent-after-shutdown-returned", "a Shutdown call had returned and a datagram still left through the transport (%d times)", n)
	}
	if bgLeave != nil {
		select {
		case <-bgLeave:
		case <-time.After(10 * time.Second):
			fail("blocked/background-Leave", "the Leave(5s) that was in progress never returned")
		}
	}
	// idempotence, then a clean end
	if !shutDone && !contains(cs.Calls, "Shutdown") {
		var r1, r2 c20Result
		if cs.Stage != "created" {
			doCall(m, "Leave", peerNode, x.EP.Addr, &r1)
			doCall(m, "Leave", peerNode, x.EP.Addr, &r2)
			if r1.Panic != "" || r2.Panic != "" {
				fail("panic/repeated-Leave@"+cs.Stage, "repeated Leave panicked: %s %s", r1.Panic, r2.Panic)
			}
		}
	}
	var s1, s2 c20Result
	doCall(m, "Shutdown", peerNode, x.EP.Addr, &s1)
	okAtShutdown = V.EP.WritesOK.Load()
	doCall(m, "Shutdown", peerNode, x.EP.Addr, &s2)
	if s1.Panic != "" || s2.Panic != "" || s1.Err != "" || s2.Err != "" {
		fail("shutdown-not-idempotent", "Shutdown twice: panic %q %q err %q %q", s1.Panic, s2.Panic, s1.Err, s2.Err)
	}
	// after Shutdown: calls that the contract allows still must not panic
	for _, call := range c20Calls {
		if call == "Leave" {
			continue
		}
		var r c20Result
		doCall(m, call, peerNode, x.EP.Addr, &r)
		run.Cell("call", "after-shutdown", call, "alone")
		if r.Panic != "" {
			fail("panic/"+call+"@after-shutdown", "%s after Shutdown panicked: %s", call, r.Panic)
		}
	}
	// all background activity ends within one awareness-scaled probe interval
	Settle(time.Duration(V.Conf.AwarenessMaxMultiplier)*V.Conf.ProbeInterval + V.Conf.TCPTimeout + time.Second)
	for _, fp := range rig.Peers {
		fp.Stop()
	}
	if ok := V.EP.WritesOK.Load(); ok != okAtShutdown {
		fail("traffic-after-shutdown", "%d datagrams went out through the transport after Shutdown had returned", ok-okAtShutdown)
	}
	if g := MemberlistGoroutines(); len(g) > 0 {
		fail("goroutine-after-shutdown", "%d goroutines with memberlist frames are still alive %v after Shutdown: %.300s", len(g), time.Duration(V.Conf.AwarenessMaxMultiplier)*V.Conf.ProbeInterval+V.Conf.TCPTimeout+time.Second, g[0])
	}
	rig.C.Net.CloseAll()
	return
}

func contains(s []string, x string) bool {
	for _, e := range s {
		if e == x {
			return true
		}
	}
	return false
}

// ---- real sockets, real time, race detector ----

type rtDelegate struct {
	mu   sync.Mutex
	meta []byte
	got  []string
}

func (d *rtDelegate) NodeMeta(int) []byte {
	d.mu.Lock()
	defer d.mu.Unlock()
	return d.meta
}
func (d *rtDelegate) NotifyMsg(b []byte) {
	d.mu.Lock()
	d.got = append(d.got, string(b))
	d.mu.Unlock()
}
func (d *rtDelegate) GetBroadcasts(int, int) [][]byte { return nil }
func (d *rtDelegate) LocalState(bool) []byte          { return []byte("s") }
func (d *rtDelegate) MergeRemoteState([]byte, bool)   {}

func runC20Real(run *Run, iter int, rng *rand.Rand) (out []*c01Result) {
	fail := func(key, f string, a ...any) {
		if len(out) < 6 {
			out = append(out, &c01Result{"C20/real/" + key, fmt.Sprintf(f, a...)})
		}
	}
	mk := func(name string) (*memberlist.Memberlist, *rtDelegate, error) {
		cf := memberlist.DefaultLocalConfig()
		cf.Name = name
		cf.BindAddr = "127.0.0.1"
		cf.BindPort = 0
		cf.AdvertisePort = 0
		cf.ProbeInterval = 20 * time.Millisecond
		cf.ProbeTimeout = 8 * time.Millisecond
		cf.GossipInterval = 5 * time.Millisecond
		cf.PushPullInterval = 40 * time.Millisecond
		cf.TCPTimeout = 500 * time.Millisecond
		cf.GossipToTheDeadTime = 60 * time.Millisecond
		cf.Logger = log.New(io.Discard, "", 0)
		d := &rtDelegate{meta: []byte(name)}
		cf.Delegate = d
		m, err := memberlist.Create(cf)
		return m, d, err
	}
	var nodes []*memberlist.Memberlist
	var dels []*rtDelegate
	for i := 0; i < 3; i++ {
		m, d, err := mk(fmt.Sprintf("rt%d-%d", iter, i))
		if err != nil {
			fail("harness/create", "%v", err)
			for _, n := range nodes {
				_ = n.Shutdown()
			}
			return
		}
		nodes = append(nodes, m)
		dels = append(dels, d)
	}
	defer func() {
		for _, n := range nodes {
			_ = n.Shutdown()
		}
	}()
	addr := func(m *memberlist.Memberlist) string { return m.LocalNode().Address() }
	for _, n := range nodes[1:] {
		if _, err := n.Join([]string{addr(nodes[0])}); err != nil {
			// a loaded machine can miss the 500 ms stream timeout: not a verdict about memberlist
			run.Count("real_iterations_skipped_join_timeout", 1)
			return
		}
	}
	X := nodes[2]
	peer := *nodes[0].LocalNode()
	peerAddr := addr(nodes[0])
	xAddr := addr(X)
	var wg sync.WaitGroup
	var panics sync.Map
	stop := make(chan struct{})
	calls := []string{"Members", "NumMembers", "LocalNode", "UpdateNode", "SendBestEffort", "SendReliable", "SendToAddress", "Ping", "GetHealthScore", "ProtocolVersion", "Join"}
	for g := 0; g < 6; g++ {
		wg.Add(1)
		r := rand.New(rand.NewSource(rng.Int63()))
		go func() {
			defer wg.Done()
			for {
				select {
				case <-stop:
					return
				default:
				}
				call := calls[r.Intn(len(calls))]
				var res c20Result
				res.Call = call
				func() {
					t0 := time.Now()
					defer func() {
						if e := recover(); e != nil {
							panics.Store(call, fmt.Sprint(e))
						}
						res.Took = time.Since(t0)
					}()
					switch call {
					case "UpdateNode":
						_ = X.UpdateNode(30 * time.Millisecond)
					case "Join":
						_, _ = X.Join([]string{peerAddr})
					case "Ping":
						ua, _ := net.ResolveUDPAddr("udp", peerAddr)
						_, _ = X.Ping(peer.Name, ua)
					case "Members":
						_ = len(X.Members())
					default:
						doCall(X, call, &peer, peerAddr, &res)
						if res.Panic != "" {
							panics.Store(call, res.Panic)
						}
					}
				}()
				run.Cell("real", call)
			}
		}()
	}
	time.Sleep(time.Duration(30+rng.Intn(60)) * time.Millisecond)
	// Leave and Shutdown race with each other and with the callers
	var lw sync.WaitGroup
	order := rng.Intn(3)
	for k := 0; k < 2; k++ {
		lw.Add(2)
		go func() {
			defer lw.Done()
			defer func() {
				if e := recover(); e != nil && !strings.Contains(fmt.Sprint(e), "leave after shutdown") {
					panics.Store("Leave", fmt.Sprint(e))
				}
			}()
			if order == 1 {
				time.Sleep(2 * time.Millisecond)
			}
			_ = X.Leave(100 * time.Millisecond)
		}()
		go func() {
			defer lw.Done()
			defer func() {
				if e := recover(); e != nil {
					panics.Store("Shutdown", fmt.Sprint(e))
				}
			}()
			if order == 2 {
				time.Sleep(2 * time.Millisecond)
			} else if order == 0 {
				time.Sleep(60 * time.Millisecond)
			}
			_ = X.Shutdown()
		}()
	}
	finished := make(chan struct{})
	go func() { lw.Wait(); close(finished) }()
	select {
	case <-finished:
	case <-time.After(20 * time.Second):
		run.Note("real-time watchdog: Leave/Shutdown still running after 20 s in iteration %d (inconclusive)", iter)
		close(stop)
		return
	}
	// nothing further reaches the network: marked messages sent from now on must never arrive
	for i := 0; i < 5; i++ {
		_ = X.SendBestEffort(&peer, []byte("SENT-AFTER-SHUTDOWN"))
		_ = X.SendToAddress(memberlist.Address{Addr: peerAddr, Name: peer.Name}, []byte("SENT-AFTER-SHUTDOWN"))
	}
	close(stop)
	wg.Wait()
	time.Sleep(30 * time.Millisecond)
	dels[0].mu.Lock()
	for _, g := range dels[0].got {
		if g == "SENT-AFTER-SHUTDOWN" {
			fail("sent-after-shutdown", "a message sent after Shutdown had returned was delivered to a peer")
			break
		}
	}
	dels[0].mu.Unlock()
	// the ports are free again
	if l, err := net.Listen("tcp", xAddr); err != nil {
		fail("tcp-port-still-bound", "cannot re-bind %s after Shutdown: %v", xAddr, err)
	} else {
		l.Close()
	}
	if ua, err := net.ResolveUDPAddr("udp", xAddr); err == nil {
		if c, err := net.ListenUDP("udp", ua); err != nil {
			fail("udp-port-still-bound", "cannot re-bind %s/udp after Shutdown: %v", xAddr, err)
		} else {
			c.Close()
		}
	}
	panics.Range(func(k, v any) bool {
		fail("panic/"+k.(string), "%s panicked under concurrent use: %v", k, v)
		return true
	})
	run.Eval(1)
	return
}

func TestC20(t *testing.T) {
	run := NewRun(t, "C20", "exploration",
		"(A) Virtual time: one real node with two scripted peers is brought to each lifecycle stage {created, joined, leaving (Leave in progress), left, left and its own record reaped, shut down}; then 1-5 goroutines issue public calls at the same instant {Members, NumMembers, LocalNode, UpdateNode(2s), Join, Leave(2s), Shutdown, SendBestEffort, SendReliable, SendToAddress, Ping, GetHealthScore, ProtocolVersion}, each under recover; explicit coverage of every call at every stage alone, plus PRNG combinations incl. concurrent Shutdown calls on a transport whose Shutdown takes time. Oracles: no panic except the documented Leave-after-Shutdown, every call returns (30 virtual s watchdog; Leave/UpdateNode by their timeout), repeated Leave/Shutdown are no-ops, once a Shutdown call has returned no datagram passes the transport, and max-awareness probe interval + TCPTimeout later no goroutine with a memberlist frame exists. (B) Real sockets on loopback under the race detector: 3 nodes with millisecond intervals, 6 goroutines hammering the API of one node while Leave and Shutdown (two of each) race; outputs: race reports (deduplicated, violations), panics, marked messages sent after Shutdown returned must never be delivered, the TCP and UDP ports can be re-bound; a 20 s real-time watchdog is inconclusive, never a violation. Cell = (stage, call, alone|concurrent) / real call.")
	defer run.Finish()
	run.Assume("zero timeouts mean 'wait indefinitely' by contract and are not used", "real-time part has no timing oracle")
	// explicit coverage: every call at every stage, alone
	k := 0
	for _, st := range c20Stages {
		for _, call := range c20Calls {
			k++
			if st == "shutdown" && call == "Leave" {
				continue // documented to panic
			}
			if st == "leaving" && call == "Leave" {
				// Two overlapping Leave calls: the second parks on the leave mutex while the first waits on
				// the (virtual) clock - a synctest bubble can never become idle then. Covered by the real-time part.
				continue
			}
			id := fmt.Sprintf("stage/%s/%s", st, call)
			if !run.Replaying() {
				run.Require(fmt.Sprintf("call|%s|%s|alone", st, call))
			}
			if !run.Mine(k) || !run.Want(id) {
				continue
			}
			run.Journal(id, "")
			cs := c20Case{Stage: st, Calls: []string{call}}
			var res []*c01Result
			err := Bubble(t, func() { res = runC20Stage(run, run.Seed()+int64(k), cs) })
			if err != nil {
				res = append(res, &c01Result{"C20/bubble@" + st + "/" + call, err.Error()})
			}
			for _, r := range res {
				run.Violation(id, r.Key, r.What, cs)
			}
		}
	}
	n := run.Pick(240, 30000)
	for i := 0; i < n; i++ {
		if !run.Mine(i) {
			continue
		}
		id := fmt.Sprintf("mix/%d", i)
		if !run.Want(id) {
			continue
		}
		rng := run.RNG(id)
		cs := c20Case{Stage: c20Stages[rng.Intn(len(c20Stages)-1)], SlowShut: rng.Intn(2) == 0}
		nc := 2 + rng.Intn(4)
		for j := 0; j < nc; j++ {
			cs.Calls = append(cs.Calls, c20Calls[rng.Intn(len(c20Calls))])
		}
		// at most one Leave per bubble (see above); overlapping Leaves are exercised in real time
		leaves := 0
		if cs.Stage == "leaving" {
			leaves = 1
		}
		for j, cl := range cs.Calls {
			if cl == "Leave" {
				leaves++
				if leaves > 1 {
					cs.Calls[j] = "LocalNode"
				}
			}
		}
		if i%3 == 0 {
			cs.Calls = append(cs.Calls, "Shutdown", "Shutdown")
		}
		run.Journal(id, fmt.Sprintf("%+v", cs))
		var res []*c01Result
		err := Bubble(t, func() { res = runC20Stage(run, run.Seed()*37+int64(i), cs) })
		if err != nil {
			res = append(res, &c01Result{"C20/bubble", err.Error()})
		}
		for _, r := range res {
			run.Violation(id, r.Key, r.What, cs)
		}
		if i == 0 {
			run.Sample(cs)
		}
	}
	// (bubble scenarios that look at every goroutine of the process run before any real-socket scenario)
	for i := 0; i < run.Pick(2, 20); i++ {
		id := fmt.Sprintf("only-pushpull/%d", i)
		if !run.Mine(i+3) || !run.Want(id) {
			continue
		}
		run.Journal(id, "")
		var res []*c01Result
		err := Bubble(t, func() { res = runC20OnlyPushPull(run, run.Seed()*71+int64(i), i%2 == 1) })
		if err != nil {
			res = append(res, &c01Result{"C20/bubble", err.Error()})
		}
		run.Eval(1)
		for _, r := range res {
			run.Violation(id, r.Key, r.What, map[string]any{"with_peer": i%2 == 1})
		}
	}
	for i := 0; i < run.Pick(8, 400); i++ {
		id := fmt.Sprintf("blackhole/%d", i)
		if !run.Mine(i) || !run.Want(id) {
			continue
		}
		run.Journal(id, "")
		var res []*c01Result
		err := Bubble(t, func() { res = runC20Blackhole(run, run.Seed()*43+int64(i), i%4, i%2 == 1) })
		if err != nil {
			res = append(res, &c01Result{"C20/bubble", err.Error()})
		}
		run.Eval(1)
		for _, r := range res {
			run.Violation(id, r.Key, r.What, map[string]any{"accusations_before": i % 4})
		}
	}
	for i := 0; i < run.Pick(4, 24); i++ {
		id := fmt.Sprintf("stalled-peer/%d", i)
		if !run.Mine(i) || !run.Want(id) {
			continue
		}
		run.Journal(id, "")
		run.Eval(1)
		for _, r := range runC20StalledPeer(run, i) {
			run.Violation(id, r.Key, r.What, nil)
		}
	}
	for i := 0; i < run.Pick(8, 200); i++ {
		id := fmt.Sprintf("last-standing/%d", i)
		if !run.Mine(i) || !run.Want(id) {
			continue
		}
		run.Journal(id, "")
		var res []*c01Result
		call := []string{"Leave", "UpdateNode"}[i%2]
		err := Bubble(t, func() { res = runC20LastStanding(run, run.Seed()*47+int64(i), 1+(i/2)%3, call) })
		if err != nil {
			res = append(res, &c01Result{"C20/bubble", err.Error()})
		}
		run.Eval(1)
		for _, r := range res {
			run.Violation(id, r.Key, r.What, map[string]any{"call": call})
		}
	}
	for i, call := range []string{"SendReliable", "Join"} {
		id := "deaf-peer/" + call
		if !run.Mine(i+1) || !run.Want(id) {
			continue
		}
		run.Journal(id, "")
		var res []*c01Result
		err := Bubble(t, func() { res = runC20DeafPeer(run, run.Seed()*53+int64(i), call) })
		if err != nil {
			res = append(res, &c01Result{"C20/bubble", err.Error()})
		}
		run.Eval(1)
		for _, r := range res {
			run.Violation(id, r.Key, r.What, map[string]any{"call": call})
		}
	}
	for i := 0; i < run.Pick(4, 24); i++ {
		id := fmt.Sprintf("stalled-delegate/%d", i)
		if !run.Mine(i) || !run.Want(id) {
			continue
		}
		run.Journal(id, "")
		run.Eval(1)
		for _, r := range runC20StalledDelegate(run, i) {
			run.Violation(id, r.Key, r.What, nil)
		}
	}
	if !run.Replaying() {
		run.Require("deaf-peer|SendReliable", "deaf-peer|Join")
		run.Require("only-pushpull|peer=false", "only-pushpull|peer=true", "blackhole|health=0|hung=false", "blackhole|health=1|hung=true", "real-stalled-peer|Leave(300ms)", "last-standing|Leave|peers=1", "last-standing|UpdateNode|peers=1", "real-stalled-delegate|Shutdown")
	}
	nr := run.Pick(32, 4000)
	for i := 0; i < nr; i++ {
		if !run.Mine(i) {
			continue
		}
		id := fmt.Sprintf("real/%d", i)
		if !run.Want(id) {
			continue
		}
		run.Journal(id, "")
		for _, r := range runC20Real(run, i, run.RNG(id)) {
			run.Violation(id, r.Key, r.What, map[string]any{"iteration": i})
		}
	}
	run.Complete()
	if run.Violations() > 0 {
		t.Errorf("%d violation(s)", run.Violations())
	}
}
