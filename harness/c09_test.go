package harness

// C09 — join and push/pull are mutual, all-or-nothing, vetoable; hearsay never kills.

import (
	"bytes"
	"errors"
	"fmt"
	"math/rand"
	"testing"
	"time"

	"github.com/hashicorp/memberlist"
)

type c09Cfg struct {
	EncVsn   int    `json:"enc_version"` // -1 none
	Compress bool   `json:"compress"`
	Label    string `json:"label"`
	// the host has no user delegate at all (the joiner has one and sends user state)
	HostNoDelegate bool `json:"host_without_delegate,omitempty"`
}

func (c c09Cfg) mut(extra func(cf *memberlist.Config)) func(cf *memberlist.Config) {
	return func(cf *memberlist.Config) {
		cf.EnableCompression = c.Compress
		cf.Label = c.Label
		cf.PushPullInterval = 0
		cf.ProbeInterval = noProbe
		cf.GossipInterval = 0
		cf.TCPTimeout = 3 * time.Second
		if c.EncVsn >= 0 {
			ring, _ := memberlist.NewKeyring(nil, bytes.Repeat([]byte{0x9c}, 16))
			cf.Keyring = ring
			if c.EncVsn == 0 {
				cf.ProtocolVersion = 1
			}
		}
		if extra != nil {
			extra(cf)
		}
	}
}

type nodeDigest struct {
	Records string
	Merged  int
	Events  int
	Local   int
	MergeCb int
}

func digestOf(n *SimNode) nodeDigest {
	var b bytes.Buffer
	for _, r := range n.ML().VerifDump().Records {
		fmt.Fprintf(&b, "%s:%d:%d:%x;", r.Name, r.Incarnation, r.State, r.Meta)
	}
	d := nodeDigest{Records: b.String(), Events: int(n.Ev.Events.Load())}
	if n.Del != nil {
		n.Del.mu.Lock()
		d.Merged = len(n.Del.Merged)
		n.Del.mu.Unlock()
	}
	n.mu.Lock()
	d.MergeCb = n.MergeCalls
	n.mu.Unlock()
	return d
}

// setup builds host H (knowing two extra members) and joiner J (knowing nobody).
func c09Pair(seed int64, cfg c09Cfg, jMut, hMut func(cf *memberlist.Config), jSpec func(s *NodeSpec)) (*Cluster, *SimNode, *SimNode, error) {
	c := NewCluster(seed)
	H, err := c.Add(NodeSpec{Name: "H", IP: "10.8.0.1", Meta: []byte("meta-H"), WithMerge: true, WithAlive: true, NoDelegate: cfg.HostNoDelegate, Mutate: cfg.mut(hMut)})
	if err != nil {
		return c, nil, nil, err
	}
	if H.Del != nil {
		H.Del.State = []byte("user-state-of-H-0123456789")
	}
	js := NodeSpec{Name: "J", IP: "10.8.0.2", Meta: []byte("meta-J"), WithMerge: true, WithAlive: true, Mutate: cfg.mut(jMut)}
	if jSpec != nil {
		jSpec(&js)
	}
	J, err := c.Add(js)
	if err != nil {
		return c, H, nil, err
	}
	J.Del.State = []byte("user-state-of-J-abcdefghij")
	return c, H, J, nil
}

// seedMembers makes H know extra members m1 (alive) m2 (alive) m3 (alive, later dead) via a throw-away fake endpoint.
func seedMembers(c *Cluster, H *SimNode, cfg c09Cfg, rng *rand.Rand) {
	pc := PacketCfg{Label: cfg.Label}
	if cfg.EncVsn >= 0 {
		pc.Key, pc.EncVsn = bytes.Repeat([]byte{0x9c}, 16), cfg.EncVsn
	}
	send := func(msg []byte) {
		c.Net.Inject(H.EP, "10.8.0.9:7946", BuildPacket(pc, msg, rng))
	}
	for i, nm := range []string{"m1", "m2", "m3", "m4"} {
		send(Enc(TAlive, &WAlive{Incarnation: 2, Node: nm, Addr: []byte{10, 8, 1, byte(i + 1)}, Port: 7946, Meta: []byte("meta-" + nm), Vsn: DefaultVsn()}))
	}
	Settle(time.Millisecond)
	send(Enc(TDead, &WDead{Incarnation: 2, Node: "m3", From: "m1"}))
	send(Enc(TDead, &WDead{Incarnation: 2, Node: "m4", From: "m4"}))
	Settle(time.Millisecond)
}

// ---- part 1: mutual listing at Join return ----

func runC09Mutual(run *Run, seed int64, cfg c09Cfg, variant string, rng *rand.Rand) (out []*c01Result) {
	fail := func(key, f string, a ...any) {
		out = append(out, &c01Result{"C09/mutual/" + key, fmt.Sprintf(f, a...) + fmt.Sprintf(" [%+v variant %s]", cfg, variant)})
	}
	var jMut func(cf *memberlist.Config)
	if variant == "cidr" {
		jMut = func(cf *memberlist.Config) {
			nets, _ := memberlist.ParseCIDRs([]string{"10.8.0.0/24", "10.8.1.1/32"})
			cf.CIDRsAllowed = nets
		}
	}
	c, H, J, err := c09Pair(seed, cfg, jMut, nil, nil)
	defer c.Drain()
	if err != nil {
		fail("harness/create", "%v", err)
		return
	}
	seedMembers(c, H, cfg, rng)
	if variant == "big-table" {
		// the host knows several hundred members (large metadata): its state is tens of kilobytes, many packets' worth
		pc := PacketCfg{Label: cfg.Label}
		if cfg.EncVsn >= 0 {
			pc.Key, pc.EncVsn = bytes.Repeat([]byte{0x9c}, 16), cfg.EncVsn
		}
		for i := 0; i < 420; i++ {
			meta := bytes.Repeat([]byte{byte('a' + i%26)}, 40+i%200)
			c.Net.Inject(H.EP, "10.8.0.9:7946", BuildPacket(pc, Enc(TAlive, &WAlive{Incarnation: uint32(1 + i%5), Node: fmt.Sprintf("big%03d", i), Addr: []byte{10, 8, byte(2 + i/250), byte(1 + i%250)}, Port: 7946, Meta: meta, Vsn: DefaultVsn()}), rng))
			if i%50 == 49 {
				Settle(time.Millisecond)
			}
		}
		Settle(time.Millisecond)
	}
	vetoed := map[string]bool{}
	if variant == "alive-veto" {
		vetoed["m2"] = true
		J.mu.Lock()
		J.AliveVeto = func(n *memberlist.Node) error {
			if vetoed[n.Name] {
				return errors.New("vetoed by the alive delegate")
			}
			return nil
		}
		J.mu.Unlock()
	}
	if variant == "joiner-knows-newer-dead" {
		// J already holds m1 as dead at a higher incarnation than H reports alive
		pc := PacketCfg{Label: cfg.Label}
		if cfg.EncVsn >= 0 {
			pc.Key, pc.EncVsn = bytes.Repeat([]byte{0x9c}, 16), cfg.EncVsn
		}
		c.Net.Inject(J.EP, "10.8.0.9:7946", BuildPacket(pc, Enc(TAlive, &WAlive{Incarnation: 5, Node: "m1", Addr: []byte{10, 8, 1, 1}, Port: 7946, Vsn: DefaultVsn()}), rng))
		Settle(time.Millisecond)
		c.Net.Inject(J.EP, "10.8.0.9:7946", BuildPacket(pc, Enc(TDead, &WDead{Incarnation: 5, Node: "m1", From: "zz"}), rng))
		Settle(time.Millisecond)
		vetoed["m1"] = true
	}
	if variant == "cidr" {
		vetoed["m2"] = true // 10.8.1.2 is outside J's allowlist
	}
	hAlive := map[string]bool{}
	for _, r := range H.ML().VerifDump().Records {
		if r.State == memberlist.StateAlive {
			hAlive[r.Name] = true
		}
	}
	n, jerr := J.ML().Join([]string{H.EP.Addr})
	Settle(0) // no virtual time passes: only the host's handler is allowed to finish
	run.Eval(1)
	run.Cell("mutual", variant, fmt.Sprintf("enc=%d", cfg.EncVsn), fmt.Sprintf("comp=%v", cfg.Compress), "label="+cfg.Label)
	if n != 1 || jerr != nil {
		fail("join-failed", "Join of a healthy compatible host returned (%d, %v)", n, jerr)
		return
	}
	jm := map[string]bool{}
	for _, nm := range J.MemberNames() {
		jm[nm] = true
	}
	for nm := range hAlive {
		if vetoed[nm] {
			if jm[nm] && variant != "joiner-knows-newer-dead" || (variant == "joiner-knows-newer-dead" && nm == "m1" && jm[nm]) {
				fail("filter-bypassed/"+variant, "joiner lists %s although its own filter (%s) rejects it", nm, variant)
			}
			continue
		}
		if !jm[nm] {
			fail("joiner-misses-member", "Join reported success but the joiner does not list %s, which the host reported alive (joiner lists %v)", nm, J.MemberNames())
		}
	}
	for _, gone := range []string{"m3", "m4"} {
		if jm[gone] {
			fail("joiner-lists-non-alive", "joiner lists %s which the host reported dead/left", gone)
		}
	}
	hm := map[string]bool{}
	for _, nm := range H.MemberNames() {
		hm[nm] = true
	}
	if !hm["J"] {
		fail("host-misses-joiner", "the host's handler has finished but it does not list the joiner (host lists %v)", H.MemberNames())
	}
	if g := J.Del.MergedStates(); len(g) != 1 || !bytes.Equal(g[0].Buf, H.Del.State) || !g[0].Join {
		fail("joiner-user-state", "joiner's delegate got the host's user state %d times (join flag / bytes wrong?)", len(g))
	}
	if g := H.Del.MergedStates(); len(g) != 1 || !bytes.Equal(g[0].Buf, J.Del.State) || !g[0].Join {
		fail("host-user-state", "host's delegate got the joiner's user state %d times", len(g))
	}
	c.CheckQuiescent()
	for _, p := range c.Problems() {
		out = append(out, &c01Result{p.Key, p.What})
	}
	return
}

// ---- part 2: the stream cut at every byte ----

func runC09Cuts(run *Run, seed int64, cfg c09Cfg, rng *rand.Rand, full bool) (out []*c01Result) {
	fail := func(key, f string, a ...any) {
		if len(out) < 8 {
			out = append(out, &c01Result{"C09/cut/" + key, fmt.Sprintf(f, a...) + fmt.Sprintf(" [%+v]", cfg)})
		}
	}
	// reference run: how many bytes flow in each direction
	var lenJH, lenHJ int64
	{
		c, H, J, err := c09Pair(seed, cfg, nil, nil, nil)
		if err != nil {
			c.Drain()
			fail("harness/create", "%v", err)
			return
		}
		seedMembers(c, H, cfg, rng)
		if n, err := J.ML().Join([]string{H.EP.Addr}); n != 1 {
			c.Drain()
			fail("harness/reference-join", "%v", err)
			return
		}
		Settle(0)
		for _, s := range c.Net.Streams() {
			if s.Dialer {
				lenJH += int64(len(s.Buf))
			} else {
				lenHJ += int64(len(s.Buf))
			}
		}
		c.Drain()
	}
	run.Count("exchange_bytes_joiner_to_host", lenJH)
	run.Count("exchange_bytes_host_to_joiner", lenHJ)
	type cutCase struct {
		dir  string
		k    int64
		hard bool
	}
	var cases []cutCase
	for _, dir := range []string{"J->H", "H->J"} {
		total := lenJH
		if dir == "H->J" {
			total = lenHJ
		}
		// structural boundaries are always cut, whatever the sampling: where the trailing user state
		// begins (the node list is complete there), one byte either side, and one byte of it left
		usLen := int64(len("user-state-of-J-abcdefghij"))
		boundary := map[int64]bool{total - usLen: true, total - usLen - 1: true, total - usLen + 1: true, total - 1: true}
		for k := int64(0); k < total; k++ {
			if !full && k > 16 && k < total-16 && k%7 != 0 && !boundary[k] {
				continue
			}
			if boundary[k] {
				run.Cell("cut-boundary", dir, fmt.Sprintf("end-%d", total-k))
			}
			for _, hard := range []bool{true, false} {
				cases = append(cases, cutCase{dir, k, hard})
			}
		}
	}
	for _, cc := range cases {
		c, H, J, err := c09Pair(seed+cc.k, cfg, nil, nil, nil)
		if err != nil {
			c.Drain()
			fail("harness/create", "%v", err)
			return
		}
		seedMembers(c, H, cfg, rng)
		c.Net.StreamCut = func(conn *Conn, dialerSide bool) int64 {
			if (cc.dir == "J->H") == dialerSide {
				if cc.hard {
					if dialerSide {
						conn.d2a.cutHard = true
					} else {
						conn.a2d.cutHard = true
					}
				}
				return cc.k
			}
			return -1
		}
		dH, dJ := digestOf(H), digestOf(J)
		t0 := time.Now()
		n, jerr := J.ML().Join([]string{H.EP.Addr})
		took := time.Since(t0)
		Settle(J.Conf.TCPTimeout + time.Second)
		aH, aJ := digestOf(H), digestOf(J)
		run.Eval(1)
		total := lenJH
		if cc.dir == "H->J" {
			total = lenHJ
		}
		region := "body"
		switch {
		case cc.k < int64(len(LabelHeader(cfg.Label))) && cc.dir == "J->H":
			region = "label-header"
		case cc.k < 8:
			region = "frame-start"
		case cc.k > total-20:
			region = "tail"
		}
		run.Cell("cut", cc.dir, region, fmt.Sprintf("hard=%v", cc.hard), fmt.Sprintf("enc=%d", cfg.EncVsn), fmt.Sprintf("comp=%v", cfg.Compress), "label="+cfg.Label)
		desc := fmt.Sprintf("%s cut after %d of %d bytes (hard=%v)", cc.dir, cc.k, total, cc.hard)
		// compressed states vary by a few bytes with the (random) order of the host's table:
		// judge by what was really written on this connection
		if conns := c.Net.Conns(); len(conns) > 0 {
			h := conns[0].d2a
			if cc.dir == "H->J" {
				h = conns[0].a2d
			}
			h.mu.Lock()
			wrote := h.written
			h.mu.Unlock()
			if wrote <= cc.k {
				run.Cell("cut", "not-reached")
				if n != 1 {
					fail("uncut-join-failed", "%s: nothing was cut off (only %d bytes were written) but Join failed: %v", desc, wrote, jerr)
				}
				c.Net.StreamCut = nil
				c.Drain()
				continue
			}
		}
		if n != 0 || jerr == nil {
			fail("join-succeeded", "%s: Join reported success (%d, %v) although the exchange was incomplete", desc, n, jerr)
		}
		if took > J.Conf.TCPTimeout+100*time.Millisecond {
			fail("join-overran-timeout", "%s: Join returned after %v (TCPTimeout %v)", desc, took, J.Conf.TCPTimeout)
		}
		if aJ != dJ {
			fail("joiner-changed", "%s: the joiner's inbound message was incomplete, yet its state changed: %+v -> %+v", desc, dJ, aJ)
		}
		if cc.dir == "J->H" {
			if aH != dH {
				fail("host-changed", "%s: the host's inbound message was incomplete, yet its state changed: %+v -> %+v", desc, dH, aH)
			}
		} else if aH != dH {
			// the host received the joiner's complete state: it may merge, but then all of it
			listed := false
			for _, nm := range H.MemberNames() {
				if nm == "J" {
					listed = true
				}
			}
			var g []MergedState
			if H.Del != nil {
				g = H.Del.MergedStates()
			}
			if !listed || (H.Del != nil && (len(g) != 1 || !bytes.Equal(g[0].Buf, J.Del.State))) {
				fail("host-partial-merge", "%s: the host merged only part of a complete inbound state (lists joiner: %v, user state deliveries: %d)", desc, listed, len(g))
			}
		}
		open := 0
		for _, cn := range c.Net.Conns() {
			if !cn.Acceptor.IsClosed() || !cn.Dialer.IsClosed() {
				open++
			}
		}
		if open > 0 {
			fail("conn-leak", "%s: %d connection ends still open %v after the attempt", desc, open, J.Conf.TCPTimeout+time.Second)
		}
		c.Net.StreamCut = nil
		c.Drain()
		if len(out) > 0 {
			return
		}
	}
	return
}

// ---- part 3: rejected exchanges; part 4: hearsay ----

func versionsCompatible(local [][]uint8, remote []WPushNodeState) bool {
	var maxpmin, maxdmin uint8
	minpmax, mindmax := uint8(255), uint8(255)
	upd := func(v []uint8) {
		if v[0] > maxpmin {
			maxpmin = v[0]
		}
		if v[1] < minpmax {
			minpmax = v[1]
		}
		if v[3] > maxdmin {
			maxdmin = v[3]
		}
		if v[4] < mindmax {
			mindmax = v[4]
		}
	}
	for _, r := range remote {
		// (the first five entries of a vector are the ranges; an alive entry with at least those takes part)
		if r.State == SAlive && len(r.Vsn) >= 5 {
			upd(append(append([]uint8(nil), r.Vsn...), 0)[:6])
		}
	}
	for _, v := range local {
		upd(v)
	}
	in := func(v []uint8) bool {
		return v[2] >= maxpmin && v[2] <= minpmax && v[5] >= maxdmin && v[5] <= mindmax
	}
	for _, r := range remote {
		// an entry without a complete vector speaks "version 0"
		v := []uint8{0, 0, 0, 0, 0, 0}
		if len(r.Vsn) >= 6 {
			v = r.Vsn
		}
		if !in(v) {
			return false
		}
	}
	for _, v := range local {
		if !in(v) {
			return false
		}
	}
	return true
}

func runC09Reject(run *Run, seed int64, cfg c09Cfg, rng *rand.Rand, cases int) (out []*c01Result) {
	fail := func(key, f string, a ...any) {
		if len(out) < 8 {
			out = append(out, &c01Result{"C09/" + key, fmt.Sprintf(f, a...) + fmt.Sprintf(" [%+v]", cfg)})
		}
	}
	var key []byte
	pver := uint8(5)
	if cfg.EncVsn >= 0 {
		key = bytes.Repeat([]byte{0x9c}, 16)
		if cfg.EncVsn == 0 {
			pver = 1
		}
	}
	rig, err := NewRig(RigOpts{Seed: seed, Label: cfg.Label, Key: key, Compress: cfg.Compress, PVer: pver, Spec: NodeSpec{Name: "R", IP: "10.9.9.9", WithMerge: true, Mutate: func(cf *memberlist.Config) {
		cf.ProbeInterval = time.Second // the fake peers answer probes; suspicion timeouts stay in the seconds range
		cf.PushPullInterval = 0
		cf.GossipInterval = 0
		cf.TCPTimeout = 2 * time.Second
		cf.SuspicionMult = 4
	}}})
	if err != nil {
		fail("harness/create", "%v", err)
		return
	}
	defer rig.Close()
	R := rig.V
	F := rig.AddPeer("F", "10.9.1.1", 7946)
	F.AutoAck = true
	rig.Introduce(F, 1)
	T := rig.AddPeer("T", "10.9.1.2", 7946)
	T.AutoAck = true
	rig.Introduce(T, 4)
	Settle(time.Millisecond)
	snap := func() string {
		var b bytes.Buffer
		for _, r := range R.ML().VerifDump().Records {
			fmt.Fprintf(&b, "%s:%d:%d:%x:%v;", r.Name, r.Incarnation, r.State, r.Meta, r.HasTimer)
		}
		R.Del.mu.Lock()
		fmt.Fprintf(&b, "|merged=%d", len(R.Del.Merged))
		R.Del.mu.Unlock()
		fmt.Fprintf(&b, "|events=%d", R.Ev.Events.Load())
		return b.String()
	}
	// (a) merge delegate veto: join exchanges are refused, anti-entropy ones are not asked
	R.mu.Lock()
	R.MergeVeto = func(peers []*memberlist.Node) error { return errors.New("merge vetoed") }
	R.mu.Unlock()
	newcomer := WPushNodeState{Name: "veto-n1", Addr: []byte{10, 9, 7, 1}, Port: 7946, Incarnation: 1, State: SAlive, Vsn: DefaultVsn()}
	before := snap()
	if _, _, err := F.PushPull(true, []WPushNodeState{F.Self(1), newcomer}, []byte("vetoed-user-state")); err != nil {
		fail("harness/pp", "%v", err)
		return
	}
	run.Eval(1)
	run.Cell("reject", "merge-veto-join")
	if after := snap(); after != before {
		fail("veto-ignored", "a join exchange vetoed by the merge delegate changed the receiver: %s -> %s", before, after)
		return
	}
	R.mu.Lock()
	calls := R.MergeCalls
	R.mu.Unlock()
	if calls != 1 {
		fail("veto-not-consulted", "merge delegate consulted %d times for one join exchange", calls)
	}
	// ... also when the exchange names nobody the receiver has not heard of: a known member that comes
	// back (higher incarnation, other metadata) and a known one reported with new metadata
	before = snap()
	known := []WPushNodeState{{Name: "F", Addr: []byte(F.EP.IP), Port: 7946, Incarnation: 9, State: SAlive, Meta: []byte("returning"), Vsn: DefaultVsn()}, {Name: "T", Addr: []byte(T.EP.IP), Port: 7946, Incarnation: 9, State: SAlive, Meta: []byte("changed"), Vsn: DefaultVsn()}}
	if _, _, err := F.PushPull(true, known, []byte("vetoed-user-state-2")); err != nil {
		fail("harness/pp", "%v", err)
		return
	}
	run.Eval(1)
	run.Cell("reject", "merge-veto-join-known-names")
	if after := snap(); after != before {
		fail("veto-ignored", "a join exchange that only names already known members, vetoed by the merge delegate, changed the receiver: %s -> %s", before, after)
		return
	}
	R.mu.Lock()
	calls = R.MergeCalls
	R.mu.Unlock()
	if calls != 2 {
		fail("veto-not-consulted", "merge delegate consulted %d times for two join exchanges", calls)
	}
	// as initiator: Join towards a peer whose state the merge delegate vetoes
	F.OnStream = func(c *ConnEnd) {
		_ = ReadAllUntil(c, 50*time.Millisecond)
		var frame []byte
		rig.C.Net.Rand(func(r *rand.Rand) {
			frame = BuildStreamMsg(rig.SCfg, BuildPushPull(false, []WPushNodeState{F.Self(1), {Name: "veto-n2", Addr: []byte{10, 9, 7, 2}, Port: 7946, Incarnation: 1, State: SAlive, Vsn: DefaultVsn()}}, []byte("st")), r)
		})
		_, _ = c.Write(frame)
		time.Sleep(100 * time.Millisecond)
		c.Close()
	}
	before = snap()
	n, jerr := R.ML().Join([]string{F.EP.Addr})
	Settle(10 * time.Millisecond)
	run.Eval(1)
	run.Cell("reject", "merge-veto-as-initiator")
	if n != 0 || jerr == nil {
		fail("veto-join-succeeded", "Join reported success (%d) although the merge delegate vetoed the remote state", n)
	}
	if after := snap(); after != before {
		fail("veto-ignored-initiator", "a vetoed Join changed the initiator: %s -> %s", before, after)
	}
	R.mu.Lock()
	R.MergeVeto = nil
	R.mu.Unlock()
	F.OnStream = nil
	// (b) version matrices. Member T is first upgraded in place: a newer alive announces a narrower
	// protocol range (an alive -> alive update); the compatibility check must use that vector. The
	// oracle's idea of the local vectors comes from the claims delivered, not from the node's table
	// (only R's own vector is read from its record).
	// (the new range keeps R, F and T mutually compatible, so that later exchanges can still succeed,
	// but shuts out current versions 1 resp. 5 that the old range admitted)
	upgraded := []uint8{2, 5, 2, 0, 0, 0}
	if pver == 1 {
		// R speaks 1 and F 5: the range cannot shrink; T only changes its current version
		upgraded = []uint8{1, 5, 3, 0, 0, 0}
	}
	T.Send(Enc(TAlive, &WAlive{Incarnation: 6, Node: "T", Addr: []byte(T.EP.IP), Port: 7946, Vsn: upgraded}))
	Settle(time.Millisecond)
	run.Cell("accept", "in-place-upgrade", fmt.Sprintf("range=%d-%d", upgraded[0], upgraded[1]))
	localVsn := [][]uint8{DefaultVsn(), DefaultVsn(), upgraded} // R (replaced below), F, T
	for _, r := range R.ML().VerifDump().Records {
		switch r.Name {
		case "R":
			localVsn[0] = append([]uint8(nil), r.Vsn[:]...)
		case "T":
			if r.Incarnation != 6 || !bytes.Equal(r.Vsn[:], upgraded) {
				fail("version-vector-not-updated", "a newer alive about T announcing versions %v was accepted as %s", upgraded, recString(&r))
				return
			}
		}
	}
	incompatibleSeen, compatibleSeen := 0, 0
	for k := 0; k < cases; k++ {
		nrem := 1 + rng.Intn(3)
		var remote []WPushNodeState
		for j := 0; j < nrem; j++ {
			v := make([]uint8, 6)
			if rng.Intn(3) == 0 {
				copy(v, DefaultVsn())
			} else {
				for q := range v {
					v[q] = uint8(rng.Intn(7))
				}
				if rng.Intn(2) == 0 { // plausible shapes more often
					v[0], v[1] = uint8(1+rng.Intn(3)), uint8(2+rng.Intn(5))
					v[2] = v[0] + uint8(rng.Intn(3))
					v[3], v[4], v[5] = 0, uint8(rng.Intn(2)), 0
				}
			}
			st := SAlive
			if rng.Intn(5) == 0 {
				st = []int{SSuspect, SDead, SLeft}[rng.Intn(3)]
			}
			if rng.Intn(6) == 0 {
				v = v[:rng.Intn(6)] // an incomplete vector
				run.Cell("reject", "short-version-vector", fmt.Sprintf("len=%d", len(v)))
			}
			remote = append(remote, WPushNodeState{Name: fmt.Sprintf("vm-%d-%d", k, j), Addr: []byte{10, 9, 8, byte(j + 1)}, Port: 7946, Incarnation: 1, State: st, Vsn: v})
		}
		compat := versionsCompatible(localVsn, remote)
		join := rng.Intn(2) == 0
		before := snap()
		if _, _, err := F.PushPull(join, remote, []byte(fmt.Sprintf("vs-%d", k))); err != nil {
			fail("harness/pp", "%v", err)
			return
		}
		after := snap()
		run.Eval(1)
		if !compat {
			incompatibleSeen++
			run.Cell("reject", "version-incompatible", fmt.Sprintf("join=%v", join))
			if after != before {
				fail("version-mix-merged", "a state whose version ranges do not overlap with the local ones (or whose current version lies outside) was merged: local %v remote %+v: %s -> %s", localVsn, remote, before, after)
				return
			}
		} else {
			compatibleSeen++
			run.Cell("accept", "version-compatible")
			// the newly accepted alive nodes now belong to the local table
			for _, r := range R.ML().VerifDump().Records {
				if r.State == memberlist.StateAlive {
					found := false
					for _, v := range localVsn {
						if bytes.Equal(v, r.Vsn[:]) {
							found = true
						}
					}
					if !found {
						localVsn = append(localVsn, append([]uint8(nil), r.Vsn[:]...))
					}
				}
			}
		}
	}
	if incompatibleSeen == 0 || compatibleSeen == 0 {
		fail("harness/version-coverage", "version cases: %d incompatible, %d compatible", incompatibleSeen, compatibleSeen)
	}
	// (c) duplicates and self-referential entries: no crash, the self entry is C02's business
	before = snap()
	self := R.Record("R")
	dup := WPushNodeState{Name: "dup-n", Addr: []byte{10, 9, 7, 9}, Port: 7946, Incarnation: 3, State: SAlive, Vsn: DefaultVsn()}
	if _, _, err := F.PushPull(false, []WPushNodeState{dup, dup, dup, {Name: "R", Addr: self.Addr, Port: self.Port, Incarnation: self.Incarnation, State: SDead, Vsn: DefaultVsn()}}, nil); err != nil {
		fail("harness/pp", "%v", err)
		return
	}
	run.Eval(1)
	run.Cell("accept", "duplicates+self-dead")
	if r := R.Record("R"); r == nil || r.State != memberlist.StateAlive || r.Incarnation <= self.Incarnation {
		fail("self-entry", "a push/pull entry reporting the receiver itself dead was not refuted: %s", recString(r))
	}
	nd := 0
	for _, r := range R.ML().VerifDump().Records {
		if r.Name == "dup-n" {
			nd++
		}
	}
	if nd != 1 {
		fail("duplicate-entries", "a state listing the same node three times produced %d records", nd)
	}
	// ---- hearsay: a peer's report that a third member is dead only starts suspicion ----
	for _, st := range []int{SDead, SSuspect} {
		trec := R.Record("T")
		if trec == nil || trec.State != memberlist.StateAlive {
			// bring T back for the second round
			T.Send(Enc(TAlive, &WAlive{Incarnation: 50, Node: "T", Addr: []byte(T.EP.IP), Port: 7946, Vsn: DefaultVsn()}))
			Settle(time.Millisecond)
			trec = R.Record("T")
		}
		evB := len(R.Ev.Log())
		inc := trec.Incarnation + uint32(rng.Intn(2))
		t0 := time.Now()
		if _, _, err := F.PushPull(false, []WPushNodeState{{Name: "T", Addr: []byte(T.EP.IP), Port: 7946, Incarnation: inc, State: st, Vsn: DefaultVsn()}}, nil); err != nil {
			fail("harness/pp", "%v", err)
			return
		}
		run.Eval(1)
		run.Cell("hearsay", StateNames[st])
		listed := false
		for _, nm := range R.MemberNames() {
			if nm == "T" {
				listed = true
			}
		}
		r2 := R.Record("T")
		if !listed || r2 == nil || r2.State == memberlist.StateDead || r2.State == memberlist.StateLeft {
			fail("hearsay-killed/"+StateNames[st], "a peer's report that T is %s removed it at once (record %s)", StateNames[st], recString(r2))
			return
		}
		for _, e := range R.Ev.Log()[evB:] {
			if e.Kind == "leave" && e.Name == "T" {
				fail("hearsay-leave-event", "a leave event for T fired on hearsay")
				return
			}
		}
		// it may only go by the receiver's own timer: not before the minimum suspicion timeout
		si, ok := R.ML().VerifSuspicionOf("T")
		if !ok {
			fail("hearsay-no-suspicion", "the report did not even start a suspicion (record %s); log tail: %v", recString(r2), R.Log.Tail(4))
			return
		}
		// a second and third report while the suspicion is pending (same incarnation as the suspect record):
		// corroboration by hearsay must not kill either
		for _, st2 := range []int{SDead, SSuspect, SDead} {
			cur := R.Record("T")
			if cur == nil || cur.State != memberlist.StateSuspect {
				break
			}
			if _, _, err := F.PushPull(st2 == SSuspect, []WPushNodeState{{Name: "T", Addr: []byte(T.EP.IP), Port: 7946, Incarnation: cur.Incarnation, State: st2, Vsn: DefaultVsn()}}, nil); err != nil {
				fail("harness/pp", "%v", err)
				return
			}
			run.Eval(1)
			run.Cell("hearsay", "repeat-while-suspect-"+StateNames[st2])
			r3 := R.Record("T")
			if r3 == nil || r3.State != memberlist.StateSuspect {
				fail("hearsay-killed/repeat-"+StateNames[st2], "T was suspect (own timer pending); a further push/pull reporting it %s at the same incarnation changed it to %s %v after the suspicion started (minimum %v)", StateNames[st2], recString(r3), time.Since(t0), si.Min)
				return
			}
		}
		var leaveAt time.Time
		for i := 0; i < 4000 && leaveAt.IsZero(); i++ {
			Settle(50 * time.Millisecond)
			for _, e := range R.Ev.Log()[evB:] {
				if e.Kind == "leave" && e.Name == "T" {
					leaveAt = e.At
				}
			}
		}
		if leaveAt.IsZero() {
			fail("hearsay-never-resolved", "suspicion started by hearsay never ended (max %v)", si.Max)
			return
		}
		if d := leaveAt.Sub(t0); d < si.Min-time.Millisecond {
			fail("hearsay-early-death", "T was removed %v after the hearsay, before the minimum suspicion timeout %v", d, si.Min)
		}
	}
	rig.C.CheckQuiescent()
	for _, p := range rig.C.Problems() {
		out = append(out, &c01Result{p.Key, p.What})
	}
	return
}

func TestC09(t *testing.T) {
	run := NewRun(t, "C09", "fault_enumeration",
		"(1) Mutual listing: a real joiner joins a real host that knows alive, dead and left members; at the instant Join returns 1 (only quiescence is awaited, no virtual time passes) the joiner lists the host and every member the host reported alive except those its own filters reject (alive-delegate veto, CIDR allowlist, a newer dead record it already holds), lists none reported dead/left, the host lists the joiner, both delegates got the other's user state exactly once. (2) For every configuration (encryption none/v1/v0 x compression x label) and both directions the join exchange is replayed with the stream cut after byte k = 0..len (hard reset and black hole): the side whose inbound message was incomplete keeps an identical digest, Join reports failure within TCPTimeout, a side with a complete inbound message merges all or nothing, every connection end is closed. (3) Rejections on a real node with a scripted peer: merge-delegate veto (as responder on join, as initiator), random version 6-tuples over {0..6} against an independent compatibility predicate (incompatible => digest unchanged), triple-duplicate and self-dead entries. (4) Hearsay: a push/pull reporting a third member dead/suspect at >= the held incarnation leaves it listed, fires no leave event, starts a suspicion, and the member goes only at >= the minimum suspicion timeout. Cell = (part, region/variant, config).")
	defer run.Finish()
	run.Assume("the host may legitimately merge when ITS inbound message was complete even if its reply is cut", "version oracle used one-directionally: incompatible => nothing changes")
	cfgs := []c09Cfg{{-1, false, "", false}, {-1, true, "c9", false}, {1, false, "", false}, {1, true, "c9", false}, {0, false, "c9", false}, {0, true, "", false}, {-1, false, "", true}}
	k := 0
	for rep := 0; rep < run.Pick(1, 10); rep++ {
		for ci, cfg := range cfgs {
			for _, variant := range []string{"plain", "alive-veto", "joiner-knows-newer-dead", "cidr", "big-table"} {
				if cfg.HostNoDelegate {
					break // this configuration is for the cut enumeration only
				}
				k++
				id := fmt.Sprintf("mutual/%d/%s/rep%d", ci, variant, rep)
				if !run.Mine(k) || !run.Want(id) {
					continue
				}
				run.Journal(id, "")
				rng := run.RNG(id)
				var res []*c01Result
				err := Bubble(t, func() { res = runC09Mutual(run, run.Seed()+int64(k)*31, cfg, variant, rng) })
				if err != nil {
					res = append(res, &c01Result{"C09/bubble", err.Error()})
				}
				for _, r := range res {
					run.Violation(id, r.Key, r.What, cfg)
				}
			}
			k++
			id := fmt.Sprintf("cuts/%d/rep%d", ci, rep)
			if run.Mine(k) && run.Want(id) {
				run.Journal(id, "")
				rng := run.RNG(id)
				var res []*c01Result
				err := Bubble(t, func() {
					res = runC09Cuts(run, run.Seed()*7+int64(ci)*100000+int64(rep)*1000003, cfg, rng, run.Thorough())
				})
				if err != nil {
					res = append(res, &c01Result{"C09/bubble", err.Error()})
				}
				for _, r := range res {
					run.Violation(id, r.Key, r.What, cfg)
				}
			}
			k++
			id = fmt.Sprintf("reject/%d/rep%d", ci, rep)
			if run.Mine(k) && run.Want(id) {
				run.Journal(id, "")
				rng := run.RNG(id)
				var res []*c01Result
				err := Bubble(t, func() { res = runC09Reject(run, run.Seed()*11+int64(ci)+int64(rep)*977, cfg, rng, run.Pick(150, 3000)) })
				if err != nil {
					res = append(res, &c01Result{"C09/bubble", err.Error()})
				}
				for _, r := range res {
					run.Violation(id, r.Key, r.What, cfg)
				}
			}
		}
	}
	run.Sample(map[string]any{"cut_case": "J->H cut after 37 of 212 bytes, hard reset", "cfg": cfgs[3]})
	run.Complete()
	if run.Violations() > 0 {
		t.Errorf("%d violation(s)", run.Violations())
	}
}
