package harness

// Fault-scenario engine: real clusters in virtual time driven by a timed fault
// script (loss, duplication, delay, partitions, crashes, same-address
// restarts, leaves, metadata updates). Property checks attach oracles to it.

import (
	"bytes"
	"fmt"
	"math"
	"math/rand"
	"net"
	"sort"
	"sync"
	"time"

	"github.com/hashicorp/memberlist"
)

type faultAction struct {
	At   time.Duration `json:"at_ns"`
	Kind string        `json:"kind"` // loss | dup | delay | partition | oneway | heal | crash | restart | leave | update | join
	A    int           `json:"a,omitempty"`
	B    int           `json:"b,omitempty"`
	Set  []int         `json:"set,omitempty"`
	Dur  time.Duration `json:"dur_ns,omitempty"`
	P    float64       `json:"p,omitempty"`
}

type faultScn struct {
	N        int           `json:"n"`
	PV       int           `json:"protocol_version"`
	Indirect int           `json:"indirect_checks"`
	TCPPing  bool          `json:"tcp_pings"`
	Enc      bool          `json:"encrypt"`
	Label    string        `json:"label"`
	Compress bool          `json:"compress"`
	PushPull time.Duration `json:"push_pull_interval_ns"`
	DeadTime time.Duration `json:"gossip_to_the_dead_ns"`
	Reclaim  time.Duration `json:"dead_node_reclaim_ns"`
	Actions  []faultAction `json:"actions"`
	TStop    time.Duration `json:"t_stop_ns"`
	// rarely used configurations (zero values = the defaults used before these were added)
	V6          bool `json:"ipv6,omitempty"`            // every node lives on a 16-byte address
	Plain       bool `json:"plain_transport,omitempty"` // the transport implements only Transport (memberlist's shim supplies the node-aware calls)
	GossipNodes int  `json:"gossip_nodes,omitempty"`    // 0 = library default
}

type chaosNode struct {
	Idx       int
	Name      string
	Node      *SimNode // current process
	IP        string
	CrashedAt time.Time
	Crashed   bool
	LeftAt    time.Time // Leave returned
	Leaving   bool
	Left      bool
	LeaveErr  error
	MetaGen   int
	Restarts  int
	MetaLife  int // the life whose metadata the node carries (a restart with unchanged configuration keeps it)
	Old       []*SimNode
	Replaced  bool // its address was taken over by a differently named node
}

func (cn *chaosNode) Live() bool { return !cn.Crashed && !cn.Left && !cn.Leaving }

type Chaos struct {
	C     *Cluster
	Scn   faultScn
	Rng   *rand.Rand
	Start time.Time
	Nodes []*chaosNode
	key   []byte

	mu      sync.Mutex
	loss    float64
	dup     float64
	lateDup float64
	delay   time.Duration
	OnPoll  func(ch *Chaos)
	Polls   int
	wg      sync.WaitGroup
}

func (ch *Chaos) meta(cn *chaosNode) []byte {
	return []byte(fmt.Sprintf("%s/r%d/g%d", cn.Name, cn.MetaLife, cn.MetaGen))
}

func (ch *Chaos) spec(cn *chaosNode) NodeSpec {
	sc := ch.Scn
	return NodeSpec{Name: cn.Name, IP: cn.IP, Meta: ch.meta(cn), Mutate: func(cf *memberlist.Config) {
		cf.IndirectChecks = sc.Indirect
		cf.DisableTcpPings = !sc.TCPPing
		cf.EnableCompression = sc.Compress
		cf.Label = sc.Label
		cf.ProtocolVersion = uint8(sc.PV)
		cf.PushPullInterval = sc.PushPull
		cf.GossipToTheDeadTime = sc.DeadTime
		cf.DeadNodeReclaimTime = sc.Reclaim
		if sc.GossipNodes > 0 {
			cf.GossipNodes = sc.GossipNodes
		}
		if sc.Plain {
			cf.Transport = plainTransport{cf.Transport.(*Endpoint)}
		}
		if ch.key != nil {
			ring, _ := memberlist.NewKeyring(nil, ch.key)
			cf.Keyring = ring
		}
	}}
}

func NewChaos(seed int64, sc faultScn, rng *rand.Rand) (*Chaos, error) {
	ch := &Chaos{C: NewCluster(seed), Scn: sc, Rng: rng}
	if sc.Enc {
		ch.key = bytes.Repeat([]byte{0x33}, 32)
	}
	ch.C.Net.KeepTrace = false
	ch.C.Net.Policy = func(n *Net, from, to string, buf []byte) Fate {
		ch.mu.Lock()
		loss, dup, delay, late := ch.loss, ch.dup, ch.delay, ch.lateDup
		ch.mu.Unlock()
		f := Fate{Delay: n.DefaultDelay}
		if loss > 0 && n.Float() < loss {
			f.Drop = true
			return f
		}
		if dup > 0 && n.Float() < dup {
			f.Copies = 1
		}
		if delay > 0 {
			f.Delay += time.Duration(n.Intn(int(delay)))
			f.Jitter = delay / 2
		}
		if late > 0 && n.Float() < late {
			// a stale duplicate, seconds to half a minute behind the original, but never so late that it
			// would arrive after the faults are said to have ceased
			room := 40 * time.Second
			if sc.TStop > 0 {
				if left := sc.TStop - time.Since(ch.Start) - 2*time.Second; left < room {
					room = left
				}
			}
			if room > time.Second {
				f.Late = time.Second + time.Duration(n.Intn(int(room-time.Second)))
			}
		}
		return f
	}
	ch.C.Net.DialFailDelay = 0
	for i := 0; i < sc.N; i++ {
		cn := &chaosNode{Idx: i, Name: fmt.Sprintf("n%d", i), IP: ch.ip(i)}
		nd, err := ch.C.Add(ch.spec(cn))
		if err != nil {
			return nil, err
		}
		cn.Node = nd
		ch.Nodes = append(ch.Nodes, cn)
	}
	if err := ch.C.FullMesh(); err != nil {
		return nil, err
	}
	ch.Start = time.Now()
	return ch, nil
}

// rareConfig draws the rarely used configuration dimensions; called last by the generators, so that the
// fault scripts of a seed stay what they were before these dimensions existed.
func (sc *faultScn) rareConfig(rng *rand.Rand) {
	sc.V6 = rng.Intn(5) == 0
	sc.Plain = rng.Intn(5) == 0
	sc.GossipNodes = []int{0, 0, 1, 6}[rng.Intn(4)]
}

func (ch *Chaos) ip(i int) string {
	if ch.Scn.V6 {
		return fmt.Sprintf("fd00:1::%x", i+1)
	}
	return fmt.Sprintf("10.1.0.%d", i+1)
}

func (ch *Chaos) addr(i int) string {
	if i < len(ch.Nodes) && ch.Nodes[i].IP != "" {
		return net.JoinHostPort(ch.Nodes[i].IP, "7946") // (a name that left may have come back from another address)
	}
	return net.JoinHostPort(ch.ip(i), "7946")
}

// plainTransport hides the node-aware half of the simulated endpoint, so that memberlist wraps it in its own
// shim (addresses only, no node names) as it does for third-party transports written against the older interface.
type plainTransport struct{ e *Endpoint }

func (p plainTransport) FinalAdvertiseAddr(ip string, port int) (net.IP, int, error) {
	return p.e.FinalAdvertiseAddr(ip, port)
}
func (p plainTransport) WriteTo(b []byte, addr string) (time.Time, error) {
	return p.e.WriteTo(b, addr)
}
func (p plainTransport) PacketCh() <-chan *memberlist.Packet { return p.e.PacketCh() }
func (p plainTransport) DialTimeout(addr string, timeout time.Duration) (net.Conn, error) {
	return p.e.DialTimeout(addr, timeout)
}
func (p plainTransport) StreamCh() <-chan net.Conn { return p.e.StreamCh() }
func (p plainTransport) Shutdown() error           { return p.e.Shutdown() }

func (ch *Chaos) apply(a faultAction) {
	switch a.Kind {
	case "loss":
		ch.mu.Lock()
		ch.loss = a.P
		ch.mu.Unlock()
	case "dup":
		ch.mu.Lock()
		ch.dup = a.P
		ch.mu.Unlock()
	case "delay":
		ch.mu.Lock()
		ch.delay = a.Dur
		ch.mu.Unlock()
	case "latedup":
		ch.mu.Lock()
		ch.lateDup = a.P
		ch.mu.Unlock()
	case "streamcut":
		// every new stream is, with probability P, cut after a PRNG number of bytes in one direction
		// (reset or black hole); P = 0 ends the fault
		if a.P <= 0 {
			ch.C.Net.StreamCut = nil
			break
		}
		p := a.P
		ch.C.Net.StreamCut = func(conn *Conn, dialerSide bool) int64 {
			if ch.C.Net.Float() >= p/2 {
				return -1
			}
			if ch.C.Net.Intn(2) == 0 {
				if dialerSide {
					conn.d2a.cutHard = true
				} else {
					conn.a2d.cutHard = true
				}
			}
			return int64(ch.C.Net.Intn(600))
		}
	case "partition":
		in := map[int]bool{}
		for _, i := range a.Set {
			in[i] = true
		}
		for i := 0; i < ch.Scn.N; i++ {
			for j := 0; j < ch.Scn.N; j++ {
				if i != j && in[i] != in[j] {
					ch.C.Net.Block(ch.addr(i), ch.addr(j), true)
				}
			}
		}
	case "oneway":
		ch.C.Net.Block(ch.addr(a.A), ch.addr(a.B), true)
	case "heal":
		ch.C.Net.ClearBlocks()
	case "crash", "hang", "unreach":
		cn := ch.Nodes[a.A]
		if cn.Crashed || cn.Left || cn.Leaving {
			return
		}
		cn.Crashed = true
		cn.CrashedAt = time.Now()
		if a.Kind == "hang" {
			// a hung process: the kernel still completes TCP handshakes, nothing is ever read or answered
			cn.Node.EP.Hang()
			cn.Node.Crashed, cn.Node.Stopped = true, true
			_ = cn.Node.ML().Shutdown()
		} else {
			ch.C.Crash(cn.Node)
			if a.Kind == "unreach" {
				// the host is gone and so is the route: peers' sends fail locally with ENETUNREACH
				ch.C.Net.SetUnreachable(cn.Node.EP.Addr, true)
			}
		}
	case "restart":
		cn := ch.Nodes[a.A]
		if !cn.Crashed {
			return
		}
		ch.C.Net.SetUnreachable(cn.Node.EP.Addr, false)
		cn.Old = append(cn.Old, cn.Node)
		cn.Restarts++
		if a.P != 1 { // P = 1: the process comes back with exactly the configuration (metadata) it crashed with
			cn.MetaLife = cn.Restarts
			cn.MetaGen = 0
		}
		nd, err := ch.C.Add(ch.spec(cn))
		if err != nil {
			ch.C.sink.add(cn.Name, "harness/restart", "restart failed: %v", err)
			return
		}
		cn.Node = nd
		cn.Crashed = false
		// join through any live peer (several, in case some are unreachable)
		var targets []string
		for _, o := range ch.Nodes {
			if o != cn && o.Live() {
				targets = append(targets, o.Node.EP.Addr)
			}
		}
		ch.wg.Add(1)
		go func() {
			defer ch.wg.Done()
			_, _ = nd.ML().Join(targets)
		}()
	case "replace":
		// a different node (new name) comes up on the crashed node's address
		old := ch.Nodes[a.A]
		if !old.Crashed || old.Replaced {
			return
		}
		old.Replaced = true
		ch.C.Net.SetUnreachable(old.Node.EP.Addr, false)
		cn := &chaosNode{Idx: len(ch.Nodes), Name: old.Name + "x", IP: old.IP}
		nd, err := ch.C.Add(ch.spec(cn))
		if err != nil {
			ch.C.sink.add(cn.Name, "harness/replace", "replace failed: %v", err)
			return
		}
		cn.Node = nd
		ch.mu.Lock()
		ch.Nodes = append(ch.Nodes, cn)
		ch.mu.Unlock()
		var targets []string
		for _, o := range ch.Nodes {
			if o != cn && o.Live() {
				targets = append(targets, o.Node.EP.Addr)
			}
		}
		ch.wg.Add(1)
		go func() {
			defer ch.wg.Done()
			_, _ = nd.ML().Join(targets)
		}()
	case "join":
		cn := ch.Nodes[a.A]
		if !cn.Live() {
			return
		}
		var targets []string
		for _, o := range ch.Nodes {
			if o != cn && o.Live() {
				targets = append(targets, o.Node.EP.Addr)
			}
		}
		nd := cn.Node
		ch.wg.Add(1)
		go func() {
			defer ch.wg.Done()
			_, _ = nd.ML().Join(targets)
		}()
	case "rejoin":
		// a node that left gracefully comes back under the same name and address
		cn := ch.Nodes[a.A]
		if !cn.Left {
			return
		}
		cn.Old = append(cn.Old, cn.Node)
		cn.Restarts++
		cn.MetaLife = cn.Restarts
		cn.MetaGen = 0
		if a.P == 1 {
			// ... from another address
			if ch.Scn.V6 {
				cn.IP = fmt.Sprintf("fd00:1:9::%x", cn.Idx+1)
			} else {
				cn.IP = fmt.Sprintf("10.1.9.%d", cn.Idx+1)
			}
		}
		nd, err := ch.C.Add(ch.spec(cn))
		if err != nil {
			ch.C.sink.add(cn.Name, "harness/rejoin", "rejoin failed: %v", err)
			return
		}
		cn.Node = nd
		cn.Left = false
		var targets []string
		for _, o := range ch.Nodes {
			if o != cn && o.Live() {
				targets = append(targets, o.Node.EP.Addr)
			}
		}
		ch.wg.Add(1)
		go func() {
			defer ch.wg.Done()
			_, _ = nd.ML().Join(targets)
		}()
	case "leave":
		cn := ch.Nodes[a.A]
		if !cn.Live() {
			return
		}
		cn.Leaving = true
		nd := cn.Node
		ch.wg.Add(1)
		go func() {
			defer ch.wg.Done()
			err := nd.ML().Leave(15 * time.Second)
			ch.mu.Lock()
			cn.LeaveErr = err
			cn.LeftAt = time.Now()
			cn.Left = true
			cn.Leaving = false
			ch.mu.Unlock()
			ch.C.Stop(nd)
		}()
	case "update":
		cn := ch.Nodes[a.A]
		if !cn.Live() {
			return
		}
		cn.MetaGen++
		cn.Node.Del.SetMeta(ch.meta(cn))
		nd := cn.Node
		ch.wg.Add(1)
		go func() {
			defer ch.wg.Done()
			_ = nd.ML().UpdateNode(5 * time.Second)
		}()
	}
}

// stopFaults restores a loss-free, undelayed, unpartitioned network.
func (ch *Chaos) stopFaults() {
	ch.mu.Lock()
	ch.loss, ch.dup, ch.delay, ch.lateDup = 0, 0, 0, 0
	ch.mu.Unlock()
	ch.C.Net.ClearBlocks()
	ch.C.Net.StreamCut = nil
}

// RunUntil plays the script until virtual offset `until`, polling every 200 ms.
func (ch *Chaos) RunUntil(until time.Duration, next *int) {
	acts := ch.Scn.Actions
	for time.Since(ch.Start) < until {
		time.Sleep(200 * time.Millisecond)
		Settle(0)
		for *next < len(acts) && acts[*next].At <= time.Since(ch.Start) {
			ch.apply(acts[*next])
			*next++
		}
		Settle(0) // actions spawn goroutines (UpdateNode, Leave, Join): compare only at a quiescent point
		ch.Polls++
		Heartbeat()
		if ch.OnPoll != nil {
			ch.OnPoll(ch)
		}
		ch.C.CheckQuiescent()
	}
}

func (ch *Chaos) LiveNodes() []*chaosNode {
	ch.mu.Lock()
	defer ch.mu.Unlock()
	var out []*chaosNode
	for _, cn := range ch.Nodes {
		if cn.Live() {
			out = append(out, cn)
		}
	}
	return out
}

// Close waits for helper goroutines and drains the cluster.
func (ch *Chaos) Close() []string {
	ch.stopFaults()
	leaked := ch.C.Drain()
	ch.wg.Wait()
	return leaked
}

// ---- scenario generation ----

func sortActions(a []faultAction) {
	sort.SliceStable(a, func(i, j int) bool { return a[i].At < a[j].At })
}

func suspicionTimeoutOracle(mult, n int, interval time.Duration) time.Duration {
	scale := math.Max(1.0, math.Log10(math.Max(1.0, float64(n))))
	return time.Duration(mult) * time.Duration(scale*1000) * interval / 1000
}

// detectionBound is the configuration-fixed bound of C03 for an observer that
// holds nRecords records.
func detectionBound(cf *memberlist.Config, nRecords int) time.Duration {
	st := suspicionTimeoutOracle(cf.SuspicionMult, nRecords, cf.ProbeInterval)
	return 2*time.Duration(nRecords)*time.Duration(cf.AwarenessMaxMultiplier+1)*cf.ProbeInterval +
		time.Duration(cf.SuspicionMaxTimeoutMult)*st + cf.ProbeInterval
}

func pushPullScaleOracle(interval time.Duration, n int) time.Duration {
	if n <= 32 {
		return interval
	}
	mult := math.Ceil(math.Log2(float64(n))-math.Log2(32)) + 1.0
	return time.Duration(mult) * interval
}
