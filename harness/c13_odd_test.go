package harness

// C13, part 3: well-formed but semantically odd membership data (short or long version vectors,
// addresses of odd lengths, out-of-range states, empty names, the receiver's own name) delivered by
// push/pull (join and not) and by gossip to victims in different lifecycle phases and with the optional
// delegates configured. These inputs decode, so their membership effect is not judged here (C01/C09/C18
// do that); what is judged is survival, continued service and the absence of leaks.

import (
	"fmt"
	"math/rand"
	"strings"
	"sync"
	"time"

	"github.com/hashicorp/memberlist"
)

type c13OddScn struct {
	Phase     string `json:"phase"`     // alone | with-peers | left-alone | left-with-peers
	Delegates string `json:"delegates"` // none | merge | alive | merge+alive
	Enc       bool   `json:"encrypt"`
	Label     string `json:"label"`
}

func oddEntries(rng *rand.Rand, self string, k int) []WPushNodeState {
	var out []WPushNodeState
	for i := 0; i < k; i++ {
		e := WPushNodeState{
			Name:        fmt.Sprintf("odd%d", rng.Intn(6)),
			Addr:        make([]byte, []int{0, 1, 3, 4, 4, 4, 5, 15, 16, 17}[rng.Intn(10)]),
			Port:        []uint16{0, 1, 7946, 65535}[rng.Intn(4)],
			Incarnation: []uint32{0, 1, 2, 7, 4294967295}[rng.Intn(5)],
			State:       []int{0, 0, 1, 2, 3, 4, 5, 200, -1}[rng.Intn(9)],
			Vsn:         make([]uint8, []int{0, 0, 1, 2, 3, 4, 5, 6, 6, 7, 12}[rng.Intn(11)]),
		}
		for j := range e.Addr {
			e.Addr[j] = byte(1 + rng.Intn(250))
		}
		for j := range e.Vsn {
			e.Vsn[j] = uint8(rng.Intn(7))
		}
		if rng.Intn(3) == 0 && len(e.Vsn) >= 3 {
			copy(e.Vsn, []uint8{1, 5, 2}) // plausible protocol range, the rest odd
		}
		switch rng.Intn(10) {
		case 0:
			e.Name = ""
		case 1:
			e.Name = self
		case 2:
			e.Name = "x" // an existing peer (when there are peers)
		}
		switch rng.Intn(6) {
		case 0:
			e.Meta = make([]byte, 512)
		case 1:
			e.Meta = make([]byte, 513)
		case 2:
			e.Meta = []byte("m")
		}
		out = append(out, e)
	}
	return out
}

func runC13Odd(run *Run, seed int64, sc c13OddScn, id string, inputs int) (out []*c01Result) {
	fail := func(key, f string, a ...any) {
		if len(out) < 6 {
			out = append(out, &c01Result{"C13/" + key, fmt.Sprintf(f, a...) + fmt.Sprintf(" [%+v]", sc)})
		}
	}
	var key []byte
	if sc.Enc {
		key = make([]byte, 16)
		for i := range key {
			key[i] = 0x5a
		}
	}
	spec := NodeSpec{Name: "V", IP: "10.9.9.9", WithPing: true,
		WithMerge: sc.Delegates == "merge" || sc.Delegates == "merge+alive",
		WithAlive: sc.Delegates == "alive" || sc.Delegates == "merge+alive",
		Mutate: func(cf *memberlist.Config) {
			cf.ProbeInterval = noProbe
			cf.PushPullInterval = 0
			cf.GossipInterval = 0
			cf.TCPTimeout = 2 * time.Second
		}}
	rig, err := NewRig(RigOpts{Seed: seed, Label: sc.Label, Key: key, Spec: spec})
	if err != nil {
		fail("harness/create", "%v", err)
		return
	}
	defer rig.Close()
	rng := rand.New(rand.NewSource(seed))
	V := rig.V
	// the attacker's endpoint; it is a member only in the *-peers phases
	x := rig.AddPeer("x", "10.9.1.1", 7946)
	if sc.Phase == "with-peers" || sc.Phase == "left-with-peers" {
		y := rig.AddPeer("y", "10.9.1.2", 7946)
		rig.Introduce(x, 1)
		rig.Introduce(y, 1)
		Settle(time.Millisecond)
	}
	if sc.Phase == "left-alone" || sc.Phase == "left-with-peers" {
		done := make(chan error, 1)
		go func() { done <- V.ML().Leave(500 * time.Millisecond) }()
		time.Sleep(time.Second)
		Settle(0)
		select {
		case <-done:
		default:
			fail("harness/leave", "Leave did not return")
			return
		}
	}
	alive := func(where string) bool {
		// the stream listener still serves a genuine request
		// (an exchange that announces nobody: the victim's table must stay as the phase set it up)
		frames, _, err := x.PushPull(false, nil, nil)
		if err != nil || len(frames) == 0 {
			fail("stream-listener-dead", "%s: a genuine push/pull is no longer answered (err=%v, %d frames)", where, err, len(frames))
			return false
		}
		return true
	}
	if !alive("before any odd input") {
		return
	}
	for i := 0; i < inputs; i++ {
		join := rng.Intn(2) == 0
		entries := oddEntries(rng, "V", 1+rng.Intn(4))
		var user []byte
		if rng.Intn(3) == 0 {
			user = []byte("odd-user-state")
		}
		run.Journal(id, fmt.Sprintf("odd #%d join=%v entries=%+v", i, join, entries))
		if rng.Intn(4) == 0 {
			// the same data as gossip
			for _, e := range entries {
				var msg []byte
				switch {
				case e.State == SAlive || e.State > 3 || e.State < 0:
					msg = Enc(TAlive, &WAlive{Incarnation: e.Incarnation, Node: e.Name, Addr: e.Addr, Port: e.Port, Meta: e.Meta, Vsn: e.Vsn})
				case e.State == SSuspect:
					msg = Enc(TSuspect, &WSuspect{Incarnation: e.Incarnation, Node: e.Name, From: "x"})
				default:
					msg = Enc(TDead, &WDead{Incarnation: e.Incarnation, Node: e.Name, From: []string{"x", e.Name}[rng.Intn(2)]})
				}
				x.Send(msg)
			}
			run.Cell("odd", "gossip", sc.Phase, sc.Delegates)
		} else {
			_, _, _ = x.PushPull(join, entries, user)
			run.Cell("odd", fmt.Sprintf("pushpull-join=%v", join), sc.Phase, sc.Delegates)
		}
		Settle(time.Millisecond)
		run.Eval(1)
		if i%16 == 15 && !alive(fmt.Sprintf("after odd input #%d", i)) {
			return
		}
	}
	if !alive("after the last odd input") {
		return
	}
	time.Sleep(V.Conf.TCPTimeout + time.Second)
	Settle(0)
	open := 0
	for _, cn := range rig.C.Net.Conns() {
		if !cn.Acceptor.IsClosed() {
			open++
		}
	}
	if open > 0 {
		fail("conn-leak", "%d inbound connections still open %v after the last odd input", open, V.Conf.TCPTimeout+time.Second)
	}
	if n := V.ML().VerifPushPullInFlight(); n != 0 {
		fail("pushpull-counter", "push/pull in-flight counter is %d at rest", n)
	}
	rig.C.CheckQuiescent()
	for _, p := range rig.C.Problems() {
		out = append(out, &c01Result{p.Key, p.What})
	}
	return
}

// runC13NackFlood: the victim has a probe in flight (its target is silent); a peer that saw the probe's
// sequence number replays nacks for it, far more than the indirect checks the victim asked for. The
// packet listener must keep serving: a genuine ping sent afterwards is acknowledged.
func runC13NackFlood(run *Run, seed int64, indirect int) (out []*c01Result) {
	fail := func(key, f string, a ...any) {
		out = append(out, &c01Result{"C13/" + key, fmt.Sprintf(f, a...)})
	}
	rig, err := NewRig(RigOpts{Seed: seed, Spec: NodeSpec{Name: "V", IP: "10.9.9.9", Mutate: func(cf *memberlist.Config) {
		cf.ProbeInterval = time.Second
		cf.ProbeTimeout = 300 * time.Millisecond
		cf.PushPullInterval = 0
		cf.GossipInterval = 0
		cf.IndirectChecks = indirect
		cf.DisableTcpPings = true
		cf.SuspicionMult = 30
	}}})
	if err != nil {
		fail("harness/create", "%v", err)
		return
	}
	defer rig.Close()
	T := rig.AddPeer("T", "10.9.2.1", 7946) // silent target
	x := rig.AddPeer("x", "10.9.1.1", 7946)
	x.AutoAck = true
	rig.Introduce(T, 1)
	rig.Introduce(x, 1)
	Settle(time.Millisecond)
	floods := 0
	for round := 0; round < 6; round++ {
		nT := len(T.Received())
		var seq uint32
		found := false
		for i := 0; i < 1200 && !found; i++ {
			Settle(5 * time.Millisecond)
			for _, p := range T.Received()[nT:] {
				for _, l := range p.Info.Leaves {
					if l.Type == TPing {
						var pg WPing
						if mpDecode(l.Body, &pg) == nil {
							seq, found = pg.SeqNo, true
						}
					}
				}
			}
		}
		if !found {
			break
		}
		run.Journal("nack-flood", fmt.Sprintf("round %d: %d nacks for pending seq %d", round, indirect+6, seq))
		for k := 0; k < indirect+6; k++ {
			x.Send(Enc(TNack, &WNack{SeqNo: seq}))
		}
		Settle(5 * time.Millisecond)
		floods++
		run.Eval(1)
		run.Cell("nack-flood", fmt.Sprintf("indirect=%d", indirect))
		// liveness on the packet listener
		pseq := uint32(990000 + round)
		nx := len(x.Received())
		x.Send(Enc(TPing, &WPing{SeqNo: pseq, Node: "V", SourceAddr: []byte(x.EP.IP), SourcePort: 7946, SourceNode: "x"}))
		Settle(5 * time.Millisecond)
		acked := false
		for _, p := range x.Received()[nx:] {
			for _, l := range p.Info.Leaves {
				if l.Type == TAck {
					var a WAck
					if mpDecode(l.Body, &a) == nil && a.SeqNo == pseq {
						acked = true
					}
				}
			}
		}
		if !acked {
			fail("packet-listener-dead", "after %d nacks for the sequence number of a probe in flight (IndirectChecks=%d) a genuine ping is no longer acknowledged", indirect+6, indirect)
			return
		}
		// refute the suspicion that follows so that T is probed again as an alive member
		Settle(1500 * time.Millisecond)
		if r := rig.V.Record("T"); r != nil && r.State != memberlist.StateAlive {
			T.Send(Enc(TAlive, &WAlive{Incarnation: r.Incarnation + 1, Node: "T", Addr: []byte(T.EP.IP), Port: 7946, Vsn: DefaultVsn()}))
			Settle(time.Millisecond)
		}
	}
	if floods == 0 {
		fail("harness/no-probe", "the victim never probed its silent peer")
	}
	return
}

// runC13MergeCap: the merge delegate is slow (here: parked until released). Join push/pulls that have
// been read and answered but whose merge is still pending keep occupying one of the 128 slots: while
// they do, further push/pulls are refused before their state is processed.
func runC13MergeCap(run *Run, seed int64, total int) (out []*c01Result) {
	fail := func(key, f string, a ...any) {
		out = append(out, &c01Result{"C13/" + key, fmt.Sprintf(f, a...)})
	}
	rig, err := NewRig(RigOpts{Seed: seed, Spec: NodeSpec{Name: "V", IP: "10.9.9.9", WithMerge: true, Mutate: func(cf *memberlist.Config) {
		cf.ProbeInterval = noProbe
		cf.PushPullInterval = 0
		cf.GossipInterval = 0
		cf.TCPTimeout = 5 * time.Second
	}}})
	if err != nil {
		fail("harness/create", "%v", err)
		return
	}
	defer rig.Close()
	V := rig.V
	gate := make(chan struct{})
	var mu sync.Mutex
	entered := 0
	V.mu.Lock()
	V.MergeVeto = func([]*memberlist.Node) error {
		mu.Lock()
		entered++
		mu.Unlock()
		<-gate
		return nil
	}
	V.mu.Unlock()
	x := rig.AddPeer("x", "10.9.1.1", 7946)
	for i := 0; i < total; i++ {
		i := i
		go x.PushPullBlocking(true, []WPushNodeState{{Name: fmt.Sprintf("j%d", i), Addr: []byte{10, 9, 6, byte(i%250 + 1)}, Port: 7946, Incarnation: 1, State: SAlive, Vsn: DefaultVsn()}}, nil)
		time.Sleep(time.Millisecond)
	}
	Settle(100 * time.Millisecond)
	mu.Lock()
	n := entered
	mu.Unlock()
	inflight := V.ML().VerifPushPullInFlight()
	run.Eval(1)
	run.Cell("merge-cap", fmt.Sprintf("offered=%d", total))
	run.Max("pushpulls_merging_at_once", float64(n))
	if n > 128 {
		fail("pushpull-cap", "%d join push/pulls were being merged at the same time (the merge delegate had not returned for any of them; in-flight counter %d): the cap of 128 concurrent push/pulls was not applied to exchanges that are past their reply", n, inflight)
	}
	if n < 100 {
		fail("harness/merge-cap", "only %d of %d push/pulls reached the merge delegate", n, total)
	}
	close(gate)
	Settle(6 * time.Second)
	if c := V.ML().VerifPushPullInFlight(); c != 0 {
		fail("pushpull-counter", "push/pull in-flight counter is %d at rest", c)
	}
	return
}

// runC13DeafPeer: the node itself opens a state exchange with an address that completes the handshake and then
// never reads a byte (a wedged process, a firewall black hole behind a proxy). The socket buffers are bounded, the
// node's state is larger than they are: the write must give up at the stream timeout, the call must return, the
// connection must be closed and no goroutine may stay behind in it.
func runC13DeafPeer(run *Run, seed int64, mode string) (out []*c01Result) {
	fail := func(key, f string, a ...any) {
		out = append(out, &c01Result{"C13/" + key, fmt.Sprintf(f, a...)})
	}
	const tcpTimeout = 2 * time.Second
	pp := time.Duration(0)
	if mode == "periodic" {
		pp = 3 * time.Second
	}
	rig, err := NewRig(RigOpts{Seed: seed, Spec: NodeSpec{Name: "V", IP: "10.9.9.9", Mutate: func(cf *memberlist.Config) {
		cf.ProbeInterval = noProbe
		cf.PushPullInterval = pp
		cf.GossipInterval = 0
		cf.TCPTimeout = tcpTimeout
	}}})
	if err != nil {
		fail("harness/create", "%v", err)
		return
	}
	defer rig.Close()
	rig.C.Net.StreamWindow = 64 << 10
	state := make([]byte, 1<<20)
	rand.New(rand.NewSource(seed)).Read(state)
	rig.V.Del.mu.Lock()
	rig.V.Del.State = state
	rig.V.Del.mu.Unlock()
	h := rig.AddPeer("h", "10.9.4.4", 7946) // accepts connections (they queue up unread), answers nothing
	m := rig.V.ML()
	t0 := time.Now()
	returned := make(chan string, 1)
	switch mode {
	case "join":
		go func() {
			n, err := m.Join([]string{h.EP.Addr})
			returned <- fmt.Sprintf("Join = (%d, %v)", n, err)
		}()
	case "periodic":
		rig.Introduce(h, 1) // one ordinary alive packet plants the member; the periodic exchange picks it
		returned <- "n/a"
	}
	var what string
	select {
	case what = <-returned:
	case <-time.After(10 * tcpTimeout):
		fail("outbound-stream-hang/"+mode, "%s towards a peer that accepts the connection and never reads had not returned %v after it was called (TCPTimeout %v, state %d bytes, socket buffers %d bytes)", mode, time.Since(t0), tcpTimeout, len(state), rig.C.Net.StreamWindow)
		rig.C.Net.CloseAll()
		Settle(time.Second)
		return
	}
	run.Cell("deaf-peer", mode)
	run.Eval(1)
	if mode == "join" && !strings.Contains(what, "(0, ") {
		fail("deaf-peer/join-succeeded", "%s although the peer never answered", what)
	}
	// let (several) periodic exchanges happen, then look at what is left open
	Settle(6 * tcpTimeout)
	open, stuck := 0, 0
	for _, c := range rig.C.Net.Conns() {
		if c.DialAddr == rig.V.EP.Addr && !c.Dialer.IsClosed() && time.Since(c.OpenedAt) > 2*tcpTimeout {
			open++
		}
	}
	for _, g := range MemberlistGoroutines() {
		if strings.Contains(g, "sendLocalState") || strings.Contains(g, "sendAndReceiveState") {
			if strings.Contains(g, "minutes]") || open > 0 {
				stuck++
			}
		}
	}
	if open > 0 {
		fail("conn-leak/outbound/"+mode, "%d connection(s) the node opened towards the deaf peer are still open more than 2 x TCPTimeout after they were opened (%d goroutine(s) still inside the exchange)", open, stuck)
	}
	return
}

// runC13SilentFlood: hundreds of inbound streams that are opened and then say nothing, all at once. Each must be
// given up (closed by the node) about TCPTimeout after it was accepted - none may be left without an owner - a
// genuine request made meanwhile or afterwards is still served, and Shutdown in the middle of it returns.
func runC13SilentFlood(run *Run, seed int64, n int, shutdownMidway bool) (out []*c01Result) {
	fail := func(key, f string, a ...any) {
		out = append(out, &c01Result{"C13/" + key, fmt.Sprintf(f, a...)})
	}
	const tcpTimeout = 2 * time.Second
	rig, err := NewRig(RigOpts{Seed: seed, Spec: NodeSpec{Name: "V", IP: "10.9.9.9", Mutate: func(cf *memberlist.Config) {
		cf.ProbeInterval = noProbe
		cf.PushPullInterval = 0
		cf.GossipInterval = 0
		cf.TCPTimeout = tcpTimeout
	}}})
	if err != nil {
		fail("harness/create", "%v", err)
		return
	}
	defer rig.Close()
	x := rig.AddPeer("x", "10.9.1.1", 7946)
	rig.Introduce(x, 1)
	Settle(time.Millisecond)
	var conns []*Conn
	offered := 0
	for i := 0; i < n; i++ {
		c := rig.C.Net.NewLoosePair(fmt.Sprintf("10.9.7.%d:%d", 1+i%250, 20000+i), rig.V.EP.Addr)
		if rig.V.EP.Offer(c) {
			offered++
			conns = append(conns, c)
		}
		if i%100 == 99 {
			Settle(time.Millisecond)
		}
	}
	run.Cell("silent-flood", fmt.Sprintf("n=%d", n), fmt.Sprintf("shutdown=%v", shutdownMidway))
	run.Eval(int64(offered))
	if shutdownMidway {
		Settle(tcpTimeout / 4)
		done := make(chan error, 1)
		go func() { done <- rig.V.ML().Shutdown() }()
		select {
		case <-done:
			rig.V.Stopped = true
		case <-time.After(20 * tcpTimeout):
			fail("shutdown-blocked/silent-flood", "Shutdown had not returned %v after it was called while %d silent inbound streams were open (TCPTimeout %v)", 20*tcpTimeout, offered, tcpTimeout)
			rig.C.Net.CloseAll()
			Settle(time.Second)
			return
		}
	}
	Settle(tcpTimeout + time.Second)
	open := 0
	for _, c := range conns {
		if !c.Acceptor.IsClosed() {
			open++
		}
	}
	if open > 0 {
		fail("conn-leak/silent-flood", "%d of %d inbound streams that never sent a byte are still held open by the node %v after they were accepted (TCPTimeout %v)", open, offered, tcpTimeout+time.Second+time.Duration(n/100)*time.Millisecond, tcpTimeout)
	}
	if !shutdownMidway {
		// the node still serves a genuine stream
		if frames, _, err := x.PushPull(false, []WPushNodeState{x.Self(1)}, nil); err != nil || len(frames) == 0 {
			fail("stream-listener-dead/silent-flood", "after %d silent streams a genuine state exchange is no longer answered (%v)", offered, err)
		}
	}
	return
}
