package harness

// C01 — stale or weaker claims never override newer knowledge.
// One real node, fake peers inject claims through every carrier; after every
// claim the record / Members / events / broadcast queue are compared against an
// independent SWIM-precedence predicate.

import (
	"bytes"
	"fmt"
	"math/rand"
	"net"
	"runtime"
	"testing"
	"time"

	"github.com/hashicorp/memberlist"
)

const (
	ckAlive   = "alive"
	ckSuspect = "suspect"
	ckDead    = "dead" // From != Node
	ckLeft    = "left" // From == Node
)

type claim struct {
	Kind    string `json:"kind"`
	Node    string `json:"node"`
	Inc     uint32 `json:"inc"`
	Addr    string `json:"addr,omitempty"` // "A1" / "A2"
	Meta    string `json:"meta,omitempty"`
	Vsn     string `json:"vsn,omitempty"` // ok | bad | short
	From    string `json:"from,omitempty"`
	Carrier string `json:"carrier"` // packet | compound | compress | pp | ppjoin
	SleepNs int64  `json:"sleep_before_ns,omitempty"`
	async   bool   // deliver from a helper goroutine (no synctest.Wait inside)
}

func rankOf(kind string) int {
	switch kind {
	case ckAlive:
		return 0
	case ckSuspect:
		return 1
	}
	return 2
}

func rankState(s memberlist.NodeStateType) int {
	switch s {
	case memberlist.StateAlive:
		return 0
	case memberlist.StateSuspect:
		return 1
	}
	return 2
}

// the two addresses claims carry; a scenario whose configuration says Wide uses their 16-byte (IPv4-in-IPv6) forms
// throughout, as a transport does that hands net.ParseIP's result through unchanged
var c01Narrow = map[string][]byte{"A1": {10, 9, 0, 1}, "A2": {10, 9, 0, 2}}
var c01WideAddrs = map[string][]byte{"A1": net.IP{10, 9, 0, 1}.To16(), "A2": net.IP{10, 9, 0, 2}.To16()}
var c01Addrs = c01Narrow

// sameIP: the same address whatever its byte length (an implementation may store IPv4 in either form)
func sameIP(a, b []byte) bool {
	if len(a) == 0 || len(b) == 0 {
		return len(a) == len(b)
	}
	return net.IP(a).Equal(net.IP(b))
}

func vsnOf(s string) []uint8 {
	switch s {
	case "bad":
		return []uint8{3, 2, 2, 0, 0, 0} // pmin > pmax
	case "short":
		return []uint8{1, 5}
	case "alt":
		return []uint8{1, 4, 2, 0, 0, 0}
	}
	return DefaultVsn()
}

// effective kind of a claim once the carrier is taken into account: a
// push/pull entry reporting dead is hearsay and counts as a suspicion.
func (c claim) effKind() string {
	if (c.Carrier == "pp" || c.Carrier == "ppjoin") && c.Kind == ckDead {
		return ckSuspect
	}
	return c.Kind
}

func isPlaceholder(r *memberlist.VerifRecord) bool {
	return r != nil && r.State == memberlist.StateDead && r.Incarnation == 0 && r.StateChange.IsZero()
}

// deliver sends the claim to V through its carrier.
func (rig *Rig) deliver(c claim, via *FakePeer) error {
	addr := c01Addrs[c.Addr]
	var msg []byte
	switch c.Kind {
	case ckAlive:
		msg = Enc(TAlive, &WAlive{Incarnation: c.Inc, Node: c.Node, Addr: addr, Port: 7946, Meta: []byte(c.Meta), Vsn: vsnOf(c.Vsn)})
	case ckSuspect:
		msg = Enc(TSuspect, &WSuspect{Incarnation: c.Inc, Node: c.Node, From: c.From})
	case ckDead:
		msg = Enc(TDead, &WDead{Incarnation: c.Inc, Node: c.Node, From: c.From})
	case ckLeft:
		msg = Enc(TDead, &WDead{Incarnation: c.Inc, Node: c.Node, From: c.Node})
	}
	switch c.Carrier {
	case "packet":
		via.Send(msg)
	case "compound":
		via.Send(MakeCompound([][]byte{Enc(TNack, &WNack{SeqNo: 0xfffffff0}), msg}))
	case "compress":
		via.Send(LZWCompress(msg))
	case "pp", "ppjoin":
		st := map[string]int{ckAlive: SAlive, ckSuspect: SSuspect, ckDead: SDead, ckLeft: SLeft}[c.Kind]
		entry := WPushNodeState{Name: c.Node, Addr: addr, Port: 7946, Meta: []byte(c.Meta), Incarnation: c.Inc, State: st, Vsn: vsnOf(c.Vsn)}
		if c.Kind != ckAlive {
			// non-alive entries still carry the address the reporter knows
			entry.Vsn = DefaultVsn()
		}
		if c.async {
			via.PushPullBlocking(c.Carrier == "ppjoin", []WPushNodeState{via.Self(1), entry}, nil)
			return nil
		}
		_, _, err := via.PushPull(c.Carrier == "ppjoin", []WPushNodeState{via.Self(1), entry}, nil)
		return err
	}
	return nil
}

type c01Result struct {
	Key  string
	What string
}

// judge compares before/after for one claim about a third party.
func judgeC01(c claim, before, after Snapshot, reclaim time.Duration, now time.Time, confirmers map[string]map[string]bool) *c01Result {
	rb, ra := before.Rec(c.Node), after.Rec(c.Node)
	if isPlaceholder(rb) {
		rb = nil
	}
	if isPlaceholder(ra) {
		ra = nil
	}
	kind := c.effKind()
	fail := func(key, f string, a ...any) *c01Result {
		return &c01Result{"C01/" + key, fmt.Sprintf(f, a...) + fmt.Sprintf(" | claim=%+v before=[%s] after=[%s]", c, recString(rb), recString(ra))}
	}
	same := func(x, y *memberlist.VerifRecord) bool {
		if x == nil || y == nil {
			return x == y
		}
		return x.Incarnation == y.Incarnation && x.State == y.State && bytes.Equal(x.Addr, y.Addr) && x.Port == y.Port &&
			bytes.Equal(x.Meta, y.Meta) && x.Vsn == y.Vsn && x.HasTimer == y.HasTimer && x.StateChange.Equal(y.StateChange)
	}
	newQueued := func() [][]byte {
		var out [][]byte
		for _, q := range after.QueuedAbout(c.Node) {
			found := false
			for _, p := range before.QueuedAbout(c.Node) {
				if bytes.Equal(p, q) {
					found = true
				}
			}
			if !found {
				out = append(out, q)
			}
		}
		return out
	}
	mb, okb := before.Members[c.Node]
	ma, oka := after.Members[c.Node]
	membersSame := okb == oka && mb == ma
	addrDiff := rb != nil && kind == ckAlive && (!sameIP(rb.Addr, c01Addrs[c.Addr]) || rb.Port != 7946)

	// absent record: only an alive claim may create it
	if rb == nil {
		if kind != ckAlive {
			if ra != nil || len(newQueued()) > 0 || oka || after.Events != before.Events {
				return fail("absent/"+kind, "a %s claim about an unknown member had an effect", kind)
			}
			return nil
		}
		if ra != nil {
			if ra.State != memberlist.StateAlive || ra.Incarnation != c.Inc {
				return fail("absent/alive-misapplied", "alive claim about unknown member produced a record that is not what the claim says")
			}
		}
		return nil
	}

	stale := c.Inc < rb.Incarnation || (c.Inc == rb.Incarnation && rankOf(kind) < rankState(rb.State))
	equal := c.Inc == rb.Incarnation && rankOf(kind) == rankState(rb.State)

	// permitted regression: different address reclaiming a left / long-dead name
	reclaimOK := false
	if addrDiff {
		if rb.State == memberlist.StateLeft {
			reclaimOK = true
		}
		if rb.State == memberlist.StateDead && reclaim > 0 && now.Sub(rb.StateChange) > reclaim {
			reclaimOK = true
		}
	}

	if addrDiff && !reclaimOK {
		// address conflict: nothing may change whatever the incarnation
		if !same(rb, ra) || !membersSame || after.Events != before.Events || len(newQueued()) > 0 {
			return fail("hijack/"+StateNames[rb.State], "alive claim from a different address changed a member that is not reclaimable")
		}
		return nil
	}

	if stale && !reclaimOK {
		if !same(rb, ra) {
			return fail("stale/record-changed/"+kind+"-on-"+StateNames[rb.State], "stale claim changed the record")
		}
		if !membersSame {
			return fail("stale/members-changed/"+kind+"-on-"+StateNames[rb.State], "stale claim changed Members()")
		}
		if after.Events != before.Events {
			return fail("stale/event/"+kind+"-on-"+StateNames[rb.State], "stale claim fired %d event(s)", after.Events-before.Events)
		}
		if nq := newQueued(); len(nq) > 0 {
			return fail("stale/regossip/"+kind+"-on-"+StateNames[rb.State], "stale claim queued %d new broadcast(s) about the member", len(nq))
		}
		return nil
	}
	if equal && !reclaimOK {
		if !same(rb, ra) || !membersSame || after.Events != before.Events {
			return fail("equal/changed/"+kind+"-on-"+StateNames[rb.State], "claim equal to the held knowledge changed record, Members() or fired an event")
		}
		if nq := newQueued(); len(nq) > 0 {
			// tolerated: first confirmation of a pending suspicion by a new confirmer
			who := c.From
			if c.Carrier == "pp" || c.Carrier == "ppjoin" {
				who = "V" // hearsay is re-stated in the observer's own name
			}
			sb, okb := before.Susp[c.Node]
			sa, oka := after.Susp[c.Node]
			counted := okb && oka && sb.Start.Equal(sa.Start) && sa.N == sb.N+1
			ok := kind == ckSuspect && counted && who != "" && !confirmers[c.Node][who]
			if !ok {
				return fail("equal/regossip/"+kind+"-on-"+StateNames[rb.State], "claim equal to the held knowledge queued %d new broadcast(s)", len(nq))
			}
		}
		return nil
	}
	// fresh claim (or permitted reclaim): after must be before or exactly what the claim describes
	if same(rb, ra) {
		if !membersSame || after.Events != before.Events {
			return fail("fresh/ghost-effect", "record unchanged but Members()/events changed")
		}
		return nil
	}
	if !reclaimOK {
		if ra == nil {
			return fail("fresh/record-vanished", "record disappeared")
		}
		kb := [2]int{int(rb.Incarnation), rankState(rb.State)}
		ka := [2]int{int(ra.Incarnation), rankState(ra.State)}
		if ka[0] < kb[0] || (ka[0] == kb[0] && ka[1] < kb[1]) {
			return fail("fresh/regressed", "record moved backwards in the precedence order")
		}
	}
	want := *rb
	want.Incarnation = c.Inc
	switch kind {
	case ckAlive:
		want.State = memberlist.StateAlive
		want.Addr, want.Port, want.Meta = c01Addrs[c.Addr], 7946, []byte(c.Meta)
		if v := vsnOf(c.Vsn); len(v) >= 6 {
			copy(want.Vsn[:], v)
		}
		want.HasTimer = false
	case ckSuspect:
		want.State = memberlist.StateSuspect
		want.HasTimer = true
	case ckDead:
		want.State = memberlist.StateDead
		want.HasTimer = false
	case ckLeft:
		want.State = memberlist.StateLeft
		want.HasTimer = false
	}
	if ra == nil || ra.Incarnation != want.Incarnation || ra.State != want.State || !sameIP(ra.Addr, want.Addr) || ra.Port != want.Port ||
		!bytes.Equal(ra.Meta, want.Meta) || ra.Vsn != want.Vsn || ra.HasTimer != want.HasTimer {
		return fail("fresh/misapplied/"+kind+"-on-"+StateNames[rb.State], "record changed into something the claim does not describe (expected [%s])", recString(&want))
	}
	return nil
}

type c01Cfg struct {
	Label    string
	Enc      bool
	Compress bool
	Reclaim  time.Duration
	// the node has an Alive delegate whose callback yields the processor many times (it must not sleep:
	// the code calls it under its node lock), opening a window for whatever else is runnable
	AliveYield bool
	Wide       bool // member addresses travel as 16-byte IPv4
	Embed      bool // the second address is a genuine IPv6 address whose last four bytes are the first (IPv4) one
}

func (c c01Cfg) String() string {
	return fmt.Sprintf("label=%q enc=%v comp=%v reclaim=%v alive-delegate=%v wide-addresses=%v", c.Label, c.Enc, c.Compress, c.Reclaim, c.AliveYield, c.Wide)
}

func newC01Rig(seed int64, cfg c01Cfg) (*Rig, *FakePeer, *FakePeer, error) {
	c01Addrs = c01Narrow
	if cfg.Wide {
		c01Addrs = c01WideAddrs
	}
	if cfg.Embed {
		// NAT64-style: 64:ff9b::10.9.0.1 is not the host 10.9.0.1
		c01Addrs = map[string][]byte{"A1": {10, 9, 0, 1}, "A2": net.ParseIP("64:ff9b::a09:1")}
	}
	var key []byte
	if cfg.Enc {
		key = bytes.Repeat([]byte{7}, 16)
	}
	rig, err := NewRig(RigOpts{Seed: seed, Label: cfg.Label, Key: key, Compress: cfg.Compress, Spec: NodeSpec{Name: "V", IP: "10.9.9.9", WithAlive: cfg.AliveYield, Mutate: func(cf *memberlist.Config) {
		cf.ProbeInterval = noProbe // no probing inside the horizon; suspicion timers stay pending
		cf.PushPullInterval = 0
		cf.DeadNodeReclaimTime = cfg.Reclaim
		cf.GossipToTheDeadTime = 2 * time.Second
	}}})
	if err != nil {
		return nil, nil, nil, err
	}
	if cfg.AliveYield {
		rig.V.mu.Lock()
		rig.V.AliveVeto = func(*memberlist.Node) error {
			for i := 0; i < 40; i++ {
				runtime.Gosched()
			}
			return nil
		}
		rig.V.mu.Unlock()
	}
	x := rig.AddPeer("x", "10.9.1.1", 7946)
	y := rig.AddPeer("y", "10.9.1.2", 7946)
	rig.Introduce(x, 1)
	rig.Introduce(y, 1)
	Settle(time.Millisecond)
	return rig, x, y, nil
}

// step delivers one claim and judges it. confirmers tracks who already
// confirmed the pending suspicion of each subject.
func c01Step(run *Run, rig *Rig, x *FakePeer, c claim, reclaim time.Duration, confirmers map[string]map[string]bool) *c01Result {
	if c.SleepNs > 0 {
		Settle(time.Duration(c.SleepNs))
	}
	before := rig.Snap()
	now := time.Now()
	if err := rig.deliver(c, x); err != nil {
		return &c01Result{"C01/harness/deliver", err.Error()}
	}
	Settle(20 * time.Microsecond)
	after := rig.Snap()
	rb := before.Rec(c.Node)
	prior := "absent"
	if rb != nil && !isPlaceholder(rb) {
		prior = StateNames[rb.State]
		if rb.State == memberlist.StateDead && reclaim > 0 && now.Sub(rb.StateChange) > reclaim {
			prior = "dead-old"
		}
	}
	rel := "n/a"
	if rb != nil && !isPlaceholder(rb) {
		switch {
		case c.Inc < rb.Incarnation:
			rel = "<"
		case c.Inc == rb.Incarnation:
			rel = "="
		default:
			rel = ">"
		}
	}
	addrRel := "-"
	if c.Kind == ckAlive && rb != nil {
		addrRel = "same"
		if !sameIP(rb.Addr, c01Addrs[c.Addr]) {
			addrRel = "diff"
		}
	}
	run.Cell("claim", prior, rel, c.Kind, addrRel, c.Carrier)
	run.Eval(1)
	res := judgeC01(c, before, after, reclaim, now, confirmers)
	// bookkeeping of confirmers (after judging)
	// bookkeeping of confirmers, from observation only: who created the
	// pending timer and whose claim made its confirmation count go up
	{
		who := c.From
		if c.Carrier == "pp" || c.Carrier == "ppjoin" {
			who = "V"
		}
		sb, okb := before.Susp[c.Node]
		sa, oka := after.Susp[c.Node]
		switch {
		case !oka:
			delete(confirmers, c.Node)
		case !okb || !sb.Start.Equal(sa.Start):
			confirmers[c.Node] = map[string]bool{who: true}
		case sa.N > sb.N:
			if confirmers[c.Node] == nil {
				confirmers[c.Node] = map[string]bool{}
			}
			confirmers[c.Node][who] = true
		}
	}
	rig.C.CheckQuiescent()
	return res
}

func genClaim(rng *rand.Rand, names []string, reclaim time.Duration) claim {
	incs := []uint32{0, 1, 2, 3, 4, 4294967294}
	c := claim{
		Kind:    []string{ckAlive, ckAlive, ckSuspect, ckDead, ckLeft}[rng.Intn(5)],
		Node:    names[rng.Intn(len(names))],
		Inc:     incs[rng.Intn(len(incs))],
		Addr:    []string{"A1", "A1", "A1", "A2"}[rng.Intn(4)],
		Meta:    []string{"m1", "m2"}[rng.Intn(2)],
		Vsn:     []string{"ok", "ok", "ok", "ok", "alt", "bad", "short"}[rng.Intn(7)],
		From:    []string{"x", "y", "V", "z"}[rng.Intn(4)],
		Carrier: []string{"packet", "packet", "compound", "compress", "pp", "ppjoin"}[rng.Intn(6)],
	}
	if rng.Intn(100) < 85 && c.Inc == 4294967294 {
		c.Inc = uint32(1 + rng.Intn(4))
	}
	sleeps := []time.Duration{0, 0, time.Microsecond, 200 * time.Millisecond}
	if reclaim > 0 {
		sleeps = append(sleeps, reclaim/2, reclaim+time.Millisecond)
	}
	c.SleepNs = int64(sleeps[rng.Intn(len(sleeps))])
	return c
}

// ---- batches: several claims about one subject delivered at the same instant ----

type absRec struct {
	present bool
	inc     uint32
	rank    int    // 0 alive 1 suspect 2 dead/left
	left    bool   // rank 2: left vs dead
	addr    string // A1/A2
	meta    string
}

func absOf(r *memberlist.VerifRecord) absRec {
	if r == nil || isPlaceholder(r) {
		return absRec{}
	}
	a := absRec{present: true, inc: r.Incarnation, rank: rankState(r.State), left: r.State == memberlist.StateLeft, meta: string(r.Meta)}
	for n, b := range c01Addrs {
		if sameIP(b, r.Addr) {
			a.addr = n
		}
	}
	return a
}

// applyAbs returns the states a single claim may lead to from s (always including "ignored").
func applyAbs(s absRec, c claim, reclaimable bool) []absRec {
	out := []absRec{s}
	kind := c.effKind()
	if !s.present {
		if kind == ckAlive && c.Vsn != "bad" {
			out = append(out, absRec{present: true, inc: c.Inc, rank: 0, addr: c.Addr, meta: c.Meta})
		}
		return out
	}
	if kind == ckAlive && c.Addr != s.addr {
		// address change: only a left / reclaimable dead name may be taken over
		if s.rank == 2 && (s.left || reclaimable) && c.Vsn != "bad" {
			out = append(out, absRec{present: true, inc: c.Inc, rank: 0, addr: c.Addr, meta: c.Meta})
		}
		return out
	}
	stale := c.Inc < s.inc || (c.Inc == s.inc && rankOf(kind) <= s.rank)
	if stale {
		return out
	}
	n := s
	n.inc = c.Inc
	switch kind {
	case ckAlive:
		if c.Vsn == "bad" {
			return out
		}
		n.rank, n.left, n.meta, n.addr = 0, false, c.Meta, c.Addr
	case ckSuspect:
		if s.rank != 0 {
			return out // a suspicion only ever applies to an alive record
		}
		n.rank = 1
	case ckDead:
		n.rank, n.left = 2, false
	case ckLeft:
		n.rank, n.left = 2, true
	}
	return append(out, n)
}

func reachableAbs(start absRec, batch []claim, reclaimable bool) map[absRec]bool {
	cur := map[absRec]bool{start: true}
	// any order: iterate subsets by repeated relaxation (each claim used at most once per path)
	type st struct {
		r    absRec
		used int
	}
	seen := map[st]bool{{start, 0}: true}
	todo := []st{{start, 0}}
	for len(todo) > 0 {
		x := todo[len(todo)-1]
		todo = todo[:len(todo)-1]
		for i, c := range batch {
			if x.used&(1<<i) != 0 {
				continue
			}
			for _, n := range applyAbs(x.r, c, reclaimable) {
				y := st{n, x.used | 1<<i}
				if !seen[y] {
					seen[y] = true
					cur[n] = true
					todo = append(todo, y)
				}
			}
		}
	}
	return cur
}

func c01Batch(run *Run, rig *Rig, x *FakePeer, batch []claim, reclaim time.Duration, mixed bool) *c01Result {
	node := batch[0].Node
	before := rig.Snap()
	now := time.Now()
	rb := before.Rec(node)
	reclaimable := rb != nil && rb.State == memberlist.StateDead && reclaim > 0 && now.Sub(rb.StateChange) > reclaim
	for i := range batch {
		batch[i].Carrier = "packet" // same instant, same path: the order is the node's choice
		if mixed && i%2 == 1 {
			// ... and, when the node's alive delegate yields inside its callback, every other claim comes as
			// a push/pull entry handled by its own goroutine, concurrently with the packet handler
			cc := batch[i]
			cc.Carrier, cc.async = "pp", true
			batch[i].Carrier = "pp"
			go func() { _ = rig.deliver(cc, x) }()
			continue
		}
		if err := rig.deliver(batch[i], x); err != nil {
			return &c01Result{"C01/harness/deliver", err.Error()}
		}
	}
	if mixed {
		Settle(10 * time.Millisecond)
		run.Cell("batch", "mixed-carriers-with-yielding-alive-delegate")
	}
	Settle(50 * time.Microsecond)
	after := rig.Snap()
	start, end := absOf(rb), absOf(after.Rec(node))
	run.Eval(1)
	run.Cell("batch", fmt.Sprintf("size=%d", len(batch)), fmt.Sprintf("prior-rank=%d", start.rank))
	if !reachableAbs(start, batch, reclaimable)[end] {
		return &c01Result{"C01/batch/unreachable-state", fmt.Sprintf("after a batch of %d same-instant claims the record is %+v, which no delivery order of the batch can produce from %+v under the precedence rules; batch %+v", len(batch), end, start, batch)}
	}
	// (monotonicity is part of every single step of the reachability relation: a batch may pass
	// through 'left', after which a lower incarnation from another address is the permitted reclaim)
	rig.C.CheckQuiescent()
	return nil
}

func TestC01(t *testing.T) {
	run := NewRun(t, "C01", "exploration",
		"One real node per case in a virtual-time bubble; fake peers deliver alive/suspect/dead/leave claims about 2-3 third-party names (incarnations {0..4, 2^32-2}, two addresses, two metas, valid/invalid/short version vectors, four senders) through five carriers (packet, compound, compressed, push/pull entry non-join and join). After each claim the record, Members(), event count and the per-subject broadcast queue are compared with a precedence predicate written from the statement: stale => nothing changes and nothing new is queued; equal => nothing changes (only a first-time suspicion confirmation may be re-gossiped); any claim => the record is unchanged or exactly what the claim describes and never moves backwards, except an address change reclaiming a left or long-dead name. Every fifth step is a batch of 2-4 claims about one subject delivered at the same instant (the node's LIFO/alive-first handoff queue picks the order): the resulting record must be reachable from the prior one by some order of 'applied or ignored' steps under the same rules. Plus an explicit cross product prior-state x incarnation relation x claim kind x address x carrier. A cell is (prior state, inc relation, kind, address relation, carrier).")
	defer run.Finish()
	run.Assume("incarnation-0 alive about an unknown name leaves an invisible placeholder (treated as absent)", "push/pull entries in state dead count as suspicions (hearsay rule)", "probing disabled (ProbeInterval 1h) so suspicion timers do not expire inside a sequence")

	cfgs := []c01Cfg{
		{"", false, false, 0, false, false, false}, {"", false, false, 5 * time.Second, false, false, false}, {"lbl", true, false, 5 * time.Second, false, false, false}, {"", false, true, 5 * time.Second, true, false, false}, {"lbl", false, false, 0, true, false, false},
		{"", false, false, 5 * time.Second, false, true, false}, {"", false, false, 0, true, true, false}, {"", false, false, 5 * time.Second, false, false, true},
	}
	// ---- explicit cross product ----
	carriers := []string{"packet", "compound", "compress", "pp", "ppjoin"}
	for ci, carrier := range carriers {
		id := "cross/" + carrier
		if !run.Mine(ci) || !run.Want(id) {
			continue
		}
		run.Journal(id, "")
		cfg := cfgs[1+ci%3]
		if ci == 3 {
			cfg = cfgs[5] // member addresses in their 16-byte form
		}
		var results []*c01Result
		var trace []claim
		err := Bubble(t, func() {
			rig, x, _, err := newC01Rig(run.Seed()+int64(ci), cfg)
			if err != nil {
				results = append(results, &c01Result{"C01/harness/create", err.Error()})
				return
			}
			defer func() {
				for _, g := range rig.Close() {
					run.Note("leaked goroutine after cross/%s: %.200s", carrier, g)
				}
			}()
			conf := map[string]map[string]bool{}
			priors := []string{"absent", "alive", "suspect", "dead-old", "dead", "left"}
			type subj struct {
				name, prior string
				rel         string
				kind        string
				addr        string
			}
			var subs []subj
			n := 0
			for _, p := range priors {
				for _, rel := range []string{"<", "=", ">"} {
					for _, kind := range []string{ckAlive, ckSuspect, ckDead, ckLeft} {
						for _, addr := range []string{"A1", "A2"} {
							if kind != ckAlive && addr == "A2" {
								continue
							}
							if p == "absent" && rel != "=" {
								continue
							}
							n++
							subs = append(subs, subj{fmt.Sprintf("s%d", n), p, rel, kind, addr})
						}
					}
				}
			}
			setup := func(s subj, stages ...string) {
				for _, st := range stages {
					var c claim
					switch st {
					case "alive":
						c = claim{Kind: ckAlive, Node: s.name, Inc: 5, Addr: "A1", Meta: "m1", Vsn: "ok", Carrier: "packet"}
					case "suspect":
						c = claim{Kind: ckSuspect, Node: s.name, Inc: 5, From: "x", Carrier: "packet"}
					case "dead":
						c = claim{Kind: ckDead, Node: s.name, Inc: 5, From: "x", Carrier: "packet"}
					case "left":
						c = claim{Kind: ckLeft, Node: s.name, Inc: 5, Carrier: "packet"}
					}
					_ = rig.deliver(c, x)
					Settle(5 * time.Microsecond)
				}
			}
			// phase 1: long-dead subjects
			for _, s := range subs {
				if s.prior == "dead-old" {
					setup(s, "alive", "dead")
				}
			}
			Settle(cfg.Reclaim + time.Second)
			for _, s := range subs {
				switch s.prior {
				case "alive":
					setup(s, "alive")
				case "suspect":
					setup(s, "alive", "suspect")
				case "dead":
					setup(s, "alive", "dead")
				case "left":
					setup(s, "alive", "left")
				}
			}
			rig.C.CheckQuiescent()
			for _, s := range subs {
				inc := map[string]uint32{"<": 4, "=": 5, ">": 6}[s.rel]
				c := claim{Kind: s.kind, Node: s.name, Inc: inc, Addr: s.addr, Meta: "m2", Vsn: "ok", From: "y", Carrier: carrier}
				// verify the prior state is what the cell says
				rec := rig.V.Record(s.name)
				got := "absent"
				if rec != nil {
					got = StateNames[rec.State]
					if s.prior == "dead-old" && rec.State == memberlist.StateDead {
						got = "dead-old"
					}
				}
				if got != s.prior {
					results = append(results, &c01Result{"C01/harness/prior", fmt.Sprintf("subject %s: wanted prior %s, have %s", s.name, s.prior, got)})
					continue
				}
				trace = append(trace, c)
				if r := c01Step(run, rig, x, c, cfg.Reclaim, conf); r != nil {
					results = append(results, r)
				}
			}
			for _, p := range rig.C.Problems() {
				results = append(results, &c01Result{p.Key, p.What})
			}
		})
		if err != nil {
			results = append(results, &c01Result{"C01/bubble", err.Error()})
		}
		for _, r := range results {
			run.Violation(id, r.Key, r.What, map[string]any{"cfg": cfg.String(), "claims": trace})
		}
	}
	if !run.Replaying() {
		for _, carrier := range carriers {
			for _, p := range []string{"alive", "suspect", "dead", "dead-old", "left"} {
				for _, rel := range []string{"<", "=", ">"} {
					for _, kind := range []string{ckAlive, ckSuspect, ckDead, ckLeft} {
						a := "-"
						if kind == ckAlive {
							a = "same"
						}
						run.Require(fmt.Sprintf("claim|%s|%s|%s|%s|%s", p, rel, kind, a, carrier))
						if kind == ckAlive {
							run.Require(fmt.Sprintf("claim|%s|%s|%s|diff|%s", p, rel, kind, carrier))
						}
					}
				}
			}
		}
	}

	// ---- random sequences ----
	nseq := run.Pick(800, 240000)
	for i := 0; i < nseq; i++ {
		if !run.Mine(i) {
			continue
		}
		id := fmt.Sprintf("seq/%d", i)
		if !run.Want(id) {
			continue
		}
		rng := run.RNG(id)
		cfg := cfgs[rng.Intn(len(cfgs))]
		steps := 10 + rng.Intn(30)
		var seq []claim
		for s := 0; s < steps; s++ {
			seq = append(seq, genClaim(rng, []string{"a", "b", "c"}, cfg.Reclaim))
		}
		run.Journal(id, cfg.String())
		var results []*c01Result
		done := 0
		err := Bubble(t, func() {
			rig, x, _, err := newC01Rig(run.Seed()*7+int64(i), cfg)
			if err != nil {
				results = append(results, &c01Result{"C01/harness/create", err.Error()})
				return
			}
			defer rig.Close()
			conf := map[string]map[string]bool{}
			for si, c := range seq {
				if si%5 == 4 {
					// a batch about this claim's subject, delivered without waiting in between
					nb := 2 + rng.Intn(3)
					batch := []claim{c}
					for len(batch) < nb {
						b := genClaim(rng, []string{c.Node}, cfg.Reclaim)
						b.Vsn = []string{"ok", "ok", "bad"}[rng.Intn(3)]
						batch = append(batch, b)
					}
					batch[0].Vsn = "ok"
					if r := c01Batch(run, rig, x, batch, cfg.Reclaim, cfg.AliveYield); r != nil {
						results = append(results, r)
						break
					}
					delete(conf, c.Node) // confirmations inside the batch were not tracked
					done++
					continue
				}
				if r := c01Step(run, rig, x, c, cfg.Reclaim, conf); r != nil {
					results = append(results, r)
					break
				}
				done++
			}
			for _, p := range rig.C.Problems() {
				results = append(results, &c01Result{p.Key, p.What})
			}
		})
		if err != nil {
			results = append(results, &c01Result{"C01/bubble", err.Error()})
		}
		for _, r := range results {
			run.Violation(id, r.Key, r.What, map[string]any{"cfg": cfg.String(), "claims": seq, "judged": done})
		}
		if i == 0 {
			run.Sample(map[string]any{"cfg": cfg.String(), "claims": seq[:min(6, len(seq))]})
		}
	}
	for k, carrier := range []string{"packet", "pp"} {
		id := "port-mapping/" + carrier
		if !run.Mine(k+2) || !run.Want(id) {
			continue
		}
		run.Journal(id, "")
		var res []*c01Result
		err := Bubble(t, func() { res = runC01PortMap(run, run.Seed()*89+int64(k), carrier) })
		if err != nil {
			res = append(res, &c01Result{"C01/bubble", err.Error()})
		}
		for _, r := range res {
			run.Violation(id, r.Key, r.What, nil)
		}
	}
	run.Complete()
	if run.Violations() > 0 {
		t.Errorf("%d violation(s)", run.Violations())
	}
}

// runC01PortMap: the node listens on one port and advertises another (a port mapping in front of it). Claims that
// carry no port mean the default port - the node's configured bind port. A member known at that port explicitly
// leaves; an older port-less claim from the same address is then old news and must change nothing.
func runC01PortMap(run *Run, seed int64, carrier string) (out []*c01Result) {
	fail := func(key, f string, a ...any) {
		out = append(out, &c01Result{"C01/" + key, fmt.Sprintf(f, a...)})
	}
	rig, err := NewRig(RigOpts{Seed: seed, Spec: NodeSpec{Name: "V", IP: "10.9.9.9", Mutate: func(cf *memberlist.Config) {
		cf.ProbeInterval = noProbe
		cf.PushPullInterval = 0
		cf.BindPort = 7000 // the endpoint (what is advertised) stays on 7946
		cf.DeadNodeReclaimTime = 5 * time.Second
	}}})
	if err != nil {
		fail("harness/create", "%v", err)
		return
	}
	defer rig.Close()
	x := rig.AddPeer("x", "10.9.1.1", 7946)
	rig.Introduce(x, 1)
	Settle(time.Millisecond)
	addr := []byte{10, 9, 0, 7}
	send := func(msg []byte, st WPushNodeState) {
		switch carrier {
		case "packet":
			x.Send(msg)
		case "pp":
			_, _, _ = x.PushPull(false, []WPushNodeState{x.Self(1), st}, nil)
		}
		Settle(time.Millisecond)
	}
	send(Enc(TAlive, &WAlive{Incarnation: 5, Node: "pm", Addr: addr, Port: 7000, Meta: []byte("m1"), Vsn: DefaultVsn()}),
		WPushNodeState{Name: "pm", Addr: addr, Port: 7000, Incarnation: 5, State: SAlive, Meta: []byte("m1"), Vsn: DefaultVsn()})
	x.Send(Enc(TDead, &WDead{Incarnation: 5, Node: "pm", From: "pm"}))
	Settle(time.Millisecond)
	before := rig.V.Record("pm")
	if before == nil || before.State != memberlist.StateLeft || before.Port != 7000 {
		fail("harness/portmap", "set-up failed: %s", recString(before))
		return
	}
	evB := len(rig.V.Ev.Log())
	// old news without a port: incarnation 3 < 5, same address, default port
	send(Enc(TAlive, &WAlive{Incarnation: 3, Node: "pm", Addr: addr, Port: 0, Meta: []byte("m0"), Vsn: DefaultVsn()}),
		WPushNodeState{Name: "pm", Addr: addr, Port: 0, Incarnation: 3, State: SAlive, Meta: []byte("m0"), Vsn: DefaultVsn()})
	after := rig.V.Record("pm")
	run.Eval(1)
	run.Cell("port-mapping", carrier)
	if after == nil || after.State != before.State || after.Incarnation != before.Incarnation || after.Port != before.Port || len(rig.V.Ev.Log()) != evB {
		fail("stale/record-changed/portless-alive-on-left", "the node binds port 7000 and advertises 7946; a member known at port 7000 left at incarnation 5; an older alive claim (incarnation 3) from the same address that carries no port (= the default port) changed it: before [%s] after [%s], %d new event(s) [via %s]", recString(before), recString(after), len(rig.V.Ev.Log())-evB, carrier)
	}
	return
}
