#!/bin/bash
# mut.sh <patch.diff> <Cnn> [<Cnn>...] : apply a seeded change to /repo, run the quick checks, undo it.
# Prints one line per check: CAUGHT / MISSED / INCONCLUSIVE.
patch=$1; shift
cd /repo || exit 2
if ! git diff --quiet; then echo "/repo has uncommitted changes; refusing"; exit 2; fi
git apply "$patch" || { echo "patch does not apply"; exit 2; }
trap 'git -C /repo checkout -- . ' EXIT
for id in "$@"; do
  out=$(cd /verif && VERIF_SEED=${VERIF_SEED:-1} ./run.sh $id quick 2>&1)
  rc=$?
  case $rc in
    1) echo "CAUGHT  $id  $(echo "$out" | grep -m1 'key=' | cut -c1-220)";;
    0) echo "MISSED  $id  $(echo "$out" | tail -1 | cut -c1-160)";;
    *) echo "INCONCLUSIVE $id rc=$rc $(echo "$out" | grep -m1 INCONCLUSIVE | cut -c1-200)";;
  esac
done
