#!/usr/bin/env python3
"""Regenerates MANIFEST.json from the table below (single source of truth)."""
import json
import subprocess

ALL = ["C%02d" % i for i in range(1, 21)]

# id -> (engine, level category, level text, level note, technique, design ref)
CHECKS = {
    "C10": ("E2-model-lockstep", "exploration",
            "Runtime monitor: the real TransmitLimitedQueue is driven by PRNG and scripted operation sequences in lock-step with an executable reference queue (conservation, exactly-once Finished, greedy hand-out order, byte budget, one entry per name, no panic); thorough adds 8-goroutine producer/consumer histories checked for conservation and, per broadcast, linearizability with porcupine. Exploration is the right level: the property quantifies over unbounded operation sequences, so the claim is 'held on K sequences covering these op-bigram x queue-shape cells'.",
            "Trusts the 80-line reference model (written from the statement; conventions adopted from the code are listed in the evidence rule), Go runtime, porcupine v1.3.0.",
            "model-based lock-step monitor + porcupine history check", "DESIGN.md §3 C10"),
    "C17": ("E2-model-lockstep+E4-race+E1-simnet", "exploration",
            "Runtime monitor in three layers: (1) keyring API sequences (valid/invalid/duplicate/absent/primary keys, constructor variants) in lock-step with a reference keyring, with an aliasing monitor over every list GetKeys ever returned; (2) concurrent writers/readers under the Go race detector, the recorded call/return history checked for linearizability with porcupine, returned lists watched for tearing; (3) real 3-5 node encrypted clusters in virtual time performing install/use/remove node by node in PRNG order with an all-pairs packet+stream traffic probe after every single step, plus a negative control (out-of-order rotation must break a pair, else the probe is blind -> inconclusive).",
            "Trusts the reference keyring model, porcupine v1.3.0, the race detector, testing/synctest's fake clock and the in-memory transport.",
            "model lock-step + race detector + porcupine linearizability + rotation traffic probe", "DESIGN.md §3 C17"),
    "C01": ("E2-rig (one real node + fake peers, virtual time)", "exploration",
            "Runtime monitor: a real node in a synctest bubble receives alive/suspect/dead/leave/push-pull claims through five carriers; before/after snapshots (record incl. suspicion timer, Members(), event count, per-subject broadcast queue) are judged by a SWIM-precedence predicate written from the statement (stale => nothing; equal => nothing but a first-time confirmation re-gossip; any => unchanged or exactly the claim, never backwards, except the permitted address reclaim). An explicit cross product of prior state x incarnation relation x kind x address x carrier is required coverage; PRNG sequences add order effects.",
            "Trusts the oracle-side wire codec, the verif accessors (read under the node lock), synctest quiescence (snapshots only when no goroutine is runnable).",
            "before/after snapshot oracle over injected claims (virtual time)", "DESIGN.md §3 C01"),
    "C02": ("E2-rig + E1-simnet", "exploration",
            "Runtime monitor: accusations about the node itself (type x incarnation relation incl. far-ahead x path incl. ping-piggyback and push/pull) are injected into a real node; after each one the refutation rule is checked on the dump and the decoded broadcast queue (incarnation strictly above accusation, alive with own addr/meta/vsn queued, health +1, ping still acked; stale => no effect), and the always-on invariant monitor (self alive and listed) runs at every quiescent point, also in 4-node restart scenarios where peers remember a higher incarnation.",
            "Trusts the wire codec, verif accessors, synctest quiescence; accusations at 2^32-1 are outside the statement and not generated.",
            "invariant monitor + post-accusation oracle on queue/dump", "DESIGN.md §3 C02"),
    "C06": ("E2 (timer object in virtual time) + E2-rig", "exploration",
            "Runtime monitor in virtual time. Layer 1 drives the real suspicion timer with PRNG (offset, confirmer) scripts and compares the callback instant, count and Confirm results against the documented logarithmic schedule. Layer 2 lets a real node suspect a silent target on its own probes, checks that k/min/max equal the values derived from configuration and the number of records the node holds (not from anything else such as the node's health; the node's size estimate must equal that number) after PRNG membership prehistories (a name re-joining from another address, come-and-go members, metadata updates, address conflicts), injects claims older than the held incarnation during both suspicions (they must not disturb the schedule), delivers confirmations / a refutation followed by re-suspicion / a foreign death claim at scripted offsets and compares the NotifyLeave instant with the schedule and the [min,max] bounds.",
            "Trusts synctest's fake clock (timers fire at exact instants), the oracle's re-implementation of the documented formula, the wire codec.",
            "virtual-time schedule oracle on timer object and on end-to-end leave instants", "DESIGN.md §3 C06"),
    "C18": ("E2-rig", "exploration",
            "Runtime monitor: for seven allowlists (two with prefixes that do not end on a byte boundary and outside addresses differing in the very next bit) x 13 advertised-address classes (incl. v4-mapped, absent, malformed lengths) x 5 prior states of the name x 9 carriers (UDP alive from allowed/disallowed/unparsable source, compound, compressed, push/pull join/non-join, join from a disallowed host) a higher-incarnation alive claim is injected into a real node; after each step the subject record, and periodically every record / Members() entry / event, must satisfy an independent net/netip predicate, and disallowed claims must leave record, member count, event count (and, for disallowed sources, the queue) unchanged. Positive control counted.",
            "Trusts net/netip, the wire codec, verif accessors. Empty allowlist = allow-all is a code convention outside the property (not generated).",
            "invariant monitor with independent CIDR predicate over injected claims", "DESIGN.md §3 C18"),
    "C04": ("E1-simnet", "exploration",
            "Runtime absence monitor over healthy executions: real 2-16 node clusters in virtual time with per-packet PRNG latency strictly below ProbeTimeout/2, PRNG join order and user operations; the transport tap (every packet and stream decoded by the oracle-side codec), the push/pull states, the per-node dumps every 250 ms, the logs, the event streams and GetHealthScore are all watched for any trace of suspicion, failure declaration, refutation, failed probe or non-zero health. Exploration: 'held on K healthy executions covering these size x latency x config x operation cells'.",
            "Trusts the simulated network's latency bound (strict), the wire codec, synctest. Traffic attempted on an already shut down transport never reached the network and is ignored.",
            "absence monitors on wire tap, dumps, logs, events (virtual time)", "DESIGN.md §3 C04"),
    "C03": ("E1-simnet (fault-scenario engine)", "exploration",
            "Runtime monitor of bounded progress in virtual time: crash / hung-process / host-unreachable (local send errors) / address-taken-over-by-another-name scenarios on real clusters under loss and config variation; an oracle over dump polls and event logs checks for every (survivor, crashed) pair that the leave event arrives within the configuration-derived bound after the last time the survivor could have heard the member alive; a log-based pace monitor checks that every failing probe is given up by its slowest awareness-scaled deadline; a tap-based schedule monitor checks in fault-free stable runs that per-peer probe counts differ by at most 2 and nobody probes itself, and in the crash runs a wire monitor checks that once a survivor has dropped a crashed member it sends it no further direct pings except relays requested by others; an in-process stall detector turns a wedged node (mutex-parked goroutines for minutes) into a violation. The unbounded 'eventually' is restated as this bound; nothing is claimed beyond the executions produced.",
            "Trusts synctest virtual time, the bound formula (loose by design), 200 ms poll granularity for alive-acceptance tracking (conservative direction), the real-time stall threshold of 90 s (only used to detect a wedged process).",
            "bounded-liveness oracle + pace/schedule monitors on tap and logs (virtual time)", "DESIGN.md §3 C03"),
    "C05": ("E1-simnet (fault-scenario engine)", "exploration",
            "Runtime monitor of bounded progress in virtual time: PRNG fault scripts (loss, duplication incl. stale copies up to 40 s late, delay/reordering, stream cuts, partitions, one-way blocks, crashes, hung processes, unreachable hosts, same-address restarts incl. veteran ones that had raised their incarnation several times, address take-over by another name, leaves, metadata updates) on real clusters; at T_stop the stated connectivity precondition is evaluated on Members(); judged scenarios must reach 'every live node lists exactly the live nodes with the owner's current metadata, suspects nobody live, lists nobody crashed or departed' within the settle bound (re-checked to 4x). A deterministic classifier names each failure; one failure family is a registered known finding with four narrowly matched histories (C05/bridge-only-suspect - reproduced by a scripted state-triggered scenario on every run -, C05/bridge-lost-to-inflight-probe, C05/bridge-lost-to-stale-suspicion, C05/bridge-suspicion-never-heard), every other failure is a VIOLATION (a split although two nodes of different final components held each other alive at T_stop is never excused); at rest no node may hold a push/pull slot.",
            "Trusts synctest, the simulated network (datagrams drop/dup/delay/reorder; TCP dials retransmit the SYN with exponential backoff), the settle bound formula.",
            "bounded-convergence oracle over fault scripts (virtual time) with finding classifier", "DESIGN.md §3 C05"),
    "C07": ("E1-simnet + E2-rig (event monitor attached everywhere)", "exploration",
            "Online trace-specification checker: the recording EventDelegate asserts, inside every callback and at every quiescent point of every scenario of every check, serialization (in-flight counter), the per-member join (update)* leave automaton, and equality of the replayed event set with the live table / Members() including metadata and address. This check drives it with churn fault scripts (short GossipToTheDeadTime so reaping happens) and same-instant multi-goroutine claim bursts, and requires every transition x cause cell (cause read from the callback's own stack) to have been observed.",
            "Trusts that memberlist invokes event delegates under its node lock (the in-callback comparison reads the table unlocked; if that assumption is broken the monitor reports it as overlap/mismatch), synctest quiescence.",
            "online event-automaton + replay-equals-Members monitor (in-callback and quiescent)", "DESIGN.md §3 C07"),
    "C08": ("E2-rig (hijack) + E1-simnet (leave) + failpoint", "exploration",
            "Runtime monitor: (A) hijack/name-reuse cross product on a real node with conflict-delegate recording; (B) Leave scenarios on real clusters with a transport tap that looks for the departure packet and captures the leaver's older alive messages for later re-delivery, dumps/events of every peer at settle and final points; (C) the same with an accusation injected through the verif failpoint inside Leave (between reading the incarnation and applying the departure) - the only place where an injected delay, not workload diversity, is needed to reach the interleaving.",
            "Trusts the wire codec, the failpoint (runs harness code on Leave's goroutine without holding a memberlist lock), synctest.",
            "before/after oracle on injected claims + leave-finality monitor on tap/dumps/events + failpoint-forced interleaving", "DESIGN.md §3 C08"),
    "C16": ("E2 (codec over simulated streams) + E2-rig", "exploration",
            "Runtime monitor: label codec round trip for every label length 1..255 and hostile first bytes over four stream fragmentations and every header truncation; cross-label isolation on a real node: every message type on both paths carrying no / equal / prefix / extension / other label headers (sealed with either label as associated data), with SkipInboundLabelCheck on/off; the effect oracle covers acks, nacks, relays, delegate calls, membership, events, self-refutation, stream reply bytes and any transmission. A positive control (right label => every effect present) keeps the absence oracle from being blind.",
            "Trusts the simulated connection (ordered byte stream, fragmentation as configured), the wire codec.",
            "round-trip property monitor + effect-equals-empty oracle with positive control", "DESIGN.md §3 C16"),
    "C12": ("E1-simnet (sender/receiver pairs)", "exploration",
            "Runtime monitor at the API boundary: pairs of real nodes over the protocol-version x key-size x compression x label x time-format matrix (covering subset in quick, all 120 cells in thorough); user payloads of boundary sizes through the four user paths, push/pull user state in both directions, membership fields after join and after an update, ping and ack payload; the oracle is byte equality of what the sender passed in with what the receiver's delegate / table holds, exactly once, nothing extra; a burst while the receiver's delegate is busy checks that queued message buffers survive later packets.",
            "Trusts only the simulated loss-free network and the Go runtime; the oracle-side codec is not on the comparison path.",
            "end-to-end byte-equality monitor over the configuration matrix", "DESIGN.md §3 C12"),
    "C11": ("E2-rig + real receiver (tap on the innermost transport)", "exploration",
            "Runtime monitor: a contract-respecting delegate hands out uniquely tagged user broadcasts in hostile fill patterns (more than 255 tiny messages, exact fill of the offered limit, equal lengths) and hundreds of membership broadcasts with large metadata are queued; (1) budget: every packet seen at the sender's innermost transport (after label wrapping) is compared with UDPBufferSize; (2) conservation: multiset of messages handed out == multiset delivered to receivers' delegates (real node) or unpacked by the oracle-side codec (fake PMax<5 peer), every packet unpacks without truncation, every member claim packed for the receiver shows up in its event log.",
            "Trusts the loss-free simulated network and, for the fake no-checksum peer only, the oracle-side codec.",
            "wire-size monitor + hand-out/delivery conservation check", "DESIGN.md §3 C11"),
    "C15": ("E1-simnet (tap on the innermost transport)", "exploration",
            "Runtime monitor on every buffer a node hands to its transport in encrypted clusters driven through a script that reaches every send site: each packet and each stream write is opened by the oracle-side AES-GCM with the sender's CURRENT primary key and the label (packet) or type|length|label (stream) as associated data, anything else - cleartext, another installed key, missing associated data, a non-encrypt frame - is a violation; a canary scan over names, metadata, user payloads, user state and ack payloads backs it up. The check is inconclusive unless the opened plaintexts cover the message-type x path matrix (18 cells incl. error replies, nacks, TCP fallback ping/ack, both push/pull roles).",
            "'Every code path' is a structural quantifier: this family shows it only for the send sites the coverage matrix proves were reached. Trusts stdlib AES-GCM and the oracle-side framing.",
            "transport-tap decryption oracle + canary scan with required send-site coverage", "DESIGN.md §3 C15"),
    "C13": ("E3-hostile-input (child process per batch, journal before injection)", "fault_enumeration",
            "Fault enumeration over genuine traffic: every truncation, per-position byte edits, every single bit (items <= 256 B), type-byte sweeps, label-header variants, structurally hostile plaintexts and decompression bombs on the packet path; every cut point (FIN or stall), bit flips, over-cap declarations, bombs, 140 concurrent stalled push/pulls and a handler-stuck flood on the stream path - per configuration (label x encryption x verify-incoming x compression). Monitors: process survival (journal names the fatal input), digest equality for inputs the oracle-side codec finds undecodable, listener liveness probes, leak checks after TCPTimeout (connections, pending-probe records, push/pull counter, goroutines), bytes consumed after an over-cap header, handoff queue depth. A third part sends well-formed but odd membership data (version vectors of 0-12 entries, odd address lengths, states outside the enum, empty or own names) by push/pull and gossip to victims that are alone, have peers or have left, with the merge/alive delegates set: survival, continued service, no leaks; a nack flood for the sequence number of a probe in flight must not stop the packet listener; with a parked merge delegate at most 128 join push/pulls may be in progress. ~280 k inputs in the quick tier; thorough enumerates all positions.",
            "The enumeration is complete for single-bit/single-byte edits and truncations of the chosen genuine items in thorough, sampled by stride in quick; it says nothing about multi-byte edits beyond the listed generators. Trusts the oracle-side codec's notion of 'well-formed'.",
            "mutation enumeration with crash/effect/liveness/leak/cap monitors", "DESIGN.md §3 C13"),
    "C14": ("E3-hostile-input", "fault_enumeration",
            "Fault enumeration on genuine ciphertext: for each genuine transmission (packet and stream items chosen so that a wrongly accepted variant is visible: PKCS#7-looking tails, block-aligned plaintexts, a second installed key) every single bit is flipped, every truncation, 16-byte-boundary splices, relabelling (other / extended / none / doubled header, and with the inbound label check delegated), foreign key, foreign associated data, cleartext, and a key removed while rotation calls run concurrently. The observed effect (digest diff, delegate calls with arguments, every emitted packet for 1.5 s, decoded stream reply) must be empty or identical to the effect of the genuine plaintext in the same state. Two named variants are registered known findings (unauthenticated version byte on checksum-less packets); any other accepted modification is a VIOLATION.",
            "Enumeration is complete over single-bit edits and truncations of the chosen items in thorough (strided over the ciphertext body in quick). Trusts stdlib AES-GCM and the oracle-side framing.",
            "effect-equivalence oracle over enumerated ciphertext modifications", "DESIGN.md §3 C14"),
    "C19": ("E2-rig (all peers are scripted fake peers)", "exploration",
            "Runtime monitor in virtual time where the harness decides when every ack, nack, relayed ack and TCP-fallback reply arrives: prober oracle (answered <=> an ack with the probe's own number before the awareness-scaled deadline <=> not suspected), exact health-score accounting read at the instant each probe ends (-1 / +missed nacks / +1, clamped, unchanged when the ping could not even be sent), relay oracle on 60 indirect-ping requests per case (one forwarded ping with a non-pending number; one relayed ack under the requester's number iff the target answered within the probe timeout; one nack iff requested and no timely ack - also when the relay's own ping could not be sent, and per requester when two requests overlap), with the sequence counter wrapping around 2^32 mid-probe in a quarter of the scenarios, handler cleanup after all deadlines.",
            "Scripted arrivals stay >= 5 ms from every deadline. Trusts synctest timing, the wire codec, the accessor for pending-probe records.",
            "scripted-arrival oracle on probe outcome, relay traffic and health accounting (virtual time)", "DESIGN.md §3 C19"),
    "C09": ("E1-simnet (cut-at-byte streams) + E2-rig (scripted peer)", "fault_enumeration",
            "Fault enumeration of the join exchange: for each encryption x compression x label configuration and both directions the stream is cut after every byte offset (hard reset and black hole; strided in quick but always including the offsets around the start of the trailing user state, every offset in thorough) and the digests of both real nodes, Join's result and duration, and the open connection ends are judged (incomplete inbound => unchanged; complete inbound => all or nothing). Plus runtime monitors for mutual listing at the instant Join returns (with the joiner's own filters), merge-delegate veto in both roles, random version matrices after an in-place version upgrade of a member, against an independent compatibility predicate fed from the claims delivered, duplicate/self entries, and the hearsay rule (reported dead/suspect => listed, suspected, removed only by the receiver's own timer at >= the minimum timeout, also when the report is repeated while the suspicion is pending).",
            "Cut completeness is judged by the bytes really written on that connection (compressed state size varies with table order). Trusts the simulated stream (ordered, cut or reset at a byte offset), the wire codec.",
            "cut-at-every-byte enumeration with digest-equality oracle + exchange/hearsay monitors", "DESIGN.md §3 C09"),
    "C20": ("E2-rig stage scripts (virtual time) + E4 real sockets under -race", "exploration",
            "Runtime monitor: (A) every public call at every lifecycle stage (created, joined, leaving, left, left-and-aged, shut down) alone and in PRNG combinations incl. overlapping Shutdown calls on a transport whose shutdown takes time, each call under recover with a virtual-time watchdog; panics (other than the documented Leave-after-Shutdown), blocked calls, overrun timeouts, a datagram accepted by the transport after a Shutdown call returned, and goroutines surviving Shutdown are violations; (B) loopback NetTransport clusters with millisecond intervals hammered from 6 goroutines while two Leave and two Shutdown calls race, under the Go race detector (every deduplicated report is a violation), with post-shutdown marked messages and port re-binding checks; (C) Shutdown during the TCP-fallback phase of a probe of a black-holed member: one awareness-scaled probe interval later no goroutine of that probe may remain (virtual time); (D) on real sockets a push/pull reply blocked by a peer that stopped reading must not block Leave(300 ms), Members or LocalNode (limit 8 s against a 40 s stream timeout), and Shutdown must return while the application's NotifyMsg is stuck and more datagrams keep arriving; (E) the last node standing (every other member has left, records not yet reaped) calls Leave / UpdateNode: prompt return without error. A process-level stall detector reports mutex deadlocks.",
            "Overlapping Leave calls cannot run in a synctest bubble (the second parks on a mutex whose holder waits on the fake clock) and are exercised only in part B. Real-time watchdogs are inconclusive, never violations. Race detection covers only interleavings that occurred.",
            "stage x call scripts with panic/blocked-call/leak/post-shutdown-traffic monitors + race detector on real sockets", "DESIGN.md §3 C20"),
}

# later additions to the level texts (kept apart so that the table above stays readable)
ADDENDA = {
    "C01": " Members whose addresses travel as 16-byte IPv4 (addresses compared as addresses); an IPv6 address embedding the member's IPv4 one as the other address; port-less claims on a node that binds one port and advertises another.",
    "C02": " Accusations that arrive while the node has nobody to gossip to (fresh start, or every peer dead for longer than GossipToTheDeadTime): the refutation must survive the idle gossip rounds and reach the first peer that becomes known. An accusation behind a backlog of 5000 untransmitted broadcasts.",
    "C03": " Scenario dimensions also include IPv6 addresses, a transport implementing only the older Transport interface, GossipNodes 1/6. Up to 32 members now and then; real-time part: the library ChannelEventDelegate with a stalling consumer.",
    "C04": " Members on IPv6 addresses; delegates whose LocalState takes 0.3-2.5 s. A 72-member cluster; metadata changes announced seconds later.",
    "C05": " Veteran restarts that come back with exactly the metadata they crashed with; IPv6 / plain-transport / GossipNodes dimensions. Departed names coming back from their old or another address (PRNG and scripted).",
    "C06": " One state exchange reporting several members suspect/dead (every suspicion it starts must run its own course); accusations at a newer incarnation than held; a refutation processed at the very moment the timer has run out (log-sink hook, no virtual time passes). Names refused by the alive delegate must not count as cluster size.",
    "C07": " Start-up scenario: claims about the node's own name waiting at its address while it is created (registered finding C07/own-claim-before-announce/*).",
    "C08": " Real-time part (simulated network on the real clock): a second Leave while the first still waits for its departure to be gossiped; Leave while an UpdateNode sits in the alive callback. Leave behind a backlog of 1500 broadcasts.",
    "C10": " Concurrent producers for the same subjects with completion callbacks that take a while: exactly one broadcast per subject remains, every superseded one completed once. Pruning queues of hundreds of broadcasts; broadcasts whose Message() changes length after queueing (budget clause and panic-freedom only).",
    "C12": " A ping with nothing piggybacked; every encryption roll-out pair in quick; floods with the delegate free-running. Join-target forms and odd node names; a member that left and came back from another address must be reachable through the Node the sender lists.",
    "C13": " Victim whose keys are installed at run time; the node itself opening a state exchange towards a peer that never reads (bounded socket buffers in the simulated streams). 600-1100 silent inbound streams at once.",
    "C14": " Keys installed at run time into an empty keyring; a key removed while a stream sealed under it is still arriving. Unauthentic packets while genuine messages wait for a busy delegate.",
    "C17": " Rotation driven through the application's own keyring handles, with Keyring and SecretKey both configured. 46 KB reliable payloads in the rotation probes; quiet rotation cases (no background traffic, sparse probing).",
    "C18": " The node's own advertised address changing to a disallowed one before UpdateNode. Two state exchanges of 300 members in a row.",
    "C19": " An acknowledgement carrying the number of a relayed ping that could not be sent.",
    "C20": " SendReliable / Join towards a member that completes the handshake and never reads (bounded socket buffers): the call returns about TCPTimeout later, Shutdown works, nothing stays behind.",
    "C09": " Join with a host that knows 420 members.",
    "C15": " Application state and reliable messages far beyond 64 KiB.",
    "C16": " 440 streams of which 300 carry broken label headers.",
}

NOT_YET = "check not built yet in this round (design in DESIGN.md §3); not claimed until its monitor runs clean on the unchanged tree"


def main():
    commits = subprocess.run(["git", "-C", "/repo", "log", "--format=%h %s"], capture_output=True, text=True).stdout.splitlines()
    hook_commits = [c.split()[0] for c in commits if c.split(" ", 1)[1].startswith("verif hooks")]
    checks = []
    for pid in ALL:
        if pid not in CHECKS:
            continue
        eng, cat, text, note, tech, ref = CHECKS[pid]
        text += ADDENDA.get(pid, "")
        checks.append({
            "property_id": pid,
            "quick_cmd": f"./run.sh {pid} quick",
            "thorough_cmd": f"./run.sh {pid} thorough",
            "evidence_file": f"/verif/evidence/{pid}.json",
            "replay_cmd_template": f"./run.sh {pid} quick --replay {{path}}",
            "engine": eng,
            "level_claimed": {"category": cat, "text": text, "design_ref": ref},
            "level_note": note,
            "technique": tech,
        })
    man = {
        "version": 1,
        "setup_cmd": "./setup.sh",
        "hooks": {
            "guard": "verif",
            "enable": "go test -tags verif (the harness module replaces github.com/hashicorp/memberlist => /repo)",
            "baseline_off_cmd": "cd /repo && GOPROXY=off go test -mod=mod -json -vet=off -count=1 -timeout 25m ./...",
            "source_commits": hook_commits,
            "add_only": True,
        },
        "engines": [
            {"name": "E4-real-sockets-race", "path": "harness/c20_test.go", "serves_properties": ["C17", "C20"], "kind_free_text": "real goroutines / real NetTransport on loopback under the Go race detector; no timing oracle"},
            {"name": "E3-hostile-input", "path": "harness/hostile.go", "serves_properties": ["C13", "C14"], "kind_free_text": "victim node + genuine corpus from the oracle-side codec + deterministic mutators; each input journalled before injection, batches in child processes"},
            {"name": "E1-simnet", "path": "harness/simnet.go", "serves_properties": ["C02", "C03", "C04", "C05", "C07", "C08", "C09", "C12", "C15", "C17"], "kind_free_text": "real Memberlist instances on an in-memory transport inside a testing/synctest bubble (virtual time), with wire tap, fault scripts and fake peers"},
            {"name": "E2-model-lockstep", "path": "harness/", "serves_properties": ["C01", "C02", "C06", "C08", "C10", "C11", "C16", "C17", "C18", "C19", "C20"], "kind_free_text": "PRNG operation sequences against one object with an executable reference model evaluated in lock-step"},
        ],
        "checks": checks,
        "not_applicable": [{"property_id": p, "reason": NOT_YET} for p in ALL if p not in CHECKS],
        "notes": "Family: runtime monitoring. Exit 0 = held on everything explored, 1 = VIOLATION line, 2 = inconclusive (required coverage cell missing / watchdog). Findings register: known_findings.json.",
    }
    json.dump(man, open("/verif/MANIFEST.json", "w"), indent=1)
    print("MANIFEST.json written:", len(checks), "checks,", len(man["not_applicable"]), "not claimed")


if __name__ == "__main__":
    main()
