#!/usr/bin/env python3
"""Aggregate the part files of one check run into evidence/<id>.json and print
the verdict lines. usage: agg.py <id> <tier> <seed> <outdir> <nchildren> <wall_s> <verifdir>"""
import glob
import json
import os
import re
import sys

pid, tier, seed, out, n, wall, verif = sys.argv[1:8]
seed = int(seed)
n = int(n)
wall = float(wall)

RACE_IS_VIOLATION = {"C17", "C20"}

known = []
kf_path = os.path.join(verif, "known_findings.json")
if os.path.exists(kf_path):
    known = json.load(open(kf_path)).get("findings", [])
known_keys = {k["key"]: k for k in known if k.get("property") == pid and k.get("status") == "known"}

parts = []
problems = []      # inconclusive reasons
violations = []    # dicts key/what/replay

for k in range(n):
    pf = os.path.join(out, "parts", f"{pid}-{k}.json")
    ef = os.path.join(out, "parts", f"{pid}-{k}.exit")
    log = os.path.join(out, f"child-{k}.log")
    code = None
    if os.path.exists(ef):
        try:
            code = int(open(ef).read().strip())
        except ValueError:
            pass
    part = None
    if os.path.exists(pf):
        try:
            part = json.load(open(pf))
        except Exception as e:  # truncated
            part = None
    if part is not None and not part.get("done"):
        # the child wrote a part file but did not finish its planned cases
        violations.extend(part.get("violations") or [])
        part = None
    if part is not None and part.get("done"):
        parts.append(part)
        if code not in (0, 1):
            # finished its cases and wrote its verdict, but the process then died
            txt = open(log, errors="replace").read() if os.path.exists(log) else ""
            m = re.search(r"^(panic: .*|fatal error: .*)$", txt, re.M)
            if m:
                violations.append({"key": f"{pid}/crash-after-run", "what": m.group(1)[:300], "replay": log})
            elif code in (124, 137):
                problems.append(f"child {k}: watchdog fired after the verdict was written (exit {code})")
            else:
                problems.append(f"child {k}: exit {code} after verdict")
        continue
    # no verdict from this child
    txt = open(log, errors="replace").read() if os.path.exists(log) else ""
    jn = os.path.join(out, "parts", f"{pid}-{k}.journal")
    last = ""
    if os.path.exists(jn):
        lines = open(jn, errors="replace").read().splitlines()
        if lines:
            last = lines[-1]
    if code in (124, 137):
        problems.append(f"child {k}: watchdog timeout (last case: {last[:200]})")
        continue
    m = re.search(r"^(panic: .*|fatal error: .*)$", txt, re.M)
    if m:
        msg = m.group(1)
        # where did it die: first memberlist frame
        fr = re.search(r"github\.com/hashicorp/memberlist\.([\w\.\(\)\*]+)", txt[m.start():])
        where = fr.group(1) if fr else "?"
        where = re.sub(r"[\(\)\*]|0x[0-9a-f]+", "", where)
        norm = re.sub(r"0x[0-9a-f]+|\d+", "N", msg)[:120]
        case = last.split("\t")[0] if last else "?"
        rp = os.path.join(out, "replay", f"{pid}-s{seed}-c{k}-crash.json")
        json.dump({"property": pid, "seed": seed, "tier": tier, "case": case,
                   "key": f"{pid}/crash/{where}", "what": msg, "journal_last": last, "log": log},
                  open(rp, "w"), indent=1)
        violations.append({"key": f"{pid}/crash/{where}", "what": f"process crashed: {msg} (at {where}; last journaled case {case}; normalised {norm})", "replay": rp})
    else:
        problems.append(f"child {k}: no verdict, exit {code} (see {log})")

# merge
cells = {}
counters = {}
maxima = {}
samples = []
required = set()
assumptions = []
notes = []
evaluations = 0
rule = ""
level = "exploration"
exhaustive = False
for p in parts:
    evaluations += p.get("evaluations", 0)
    for c, v in (p.get("cells") or {}).items():
        cells[c] = cells.get(c, 0) + v
    for c, v in (p.get("counters") or {}).items():
        counters[c] = counters.get(c, 0) + v
    for c, v in (p.get("maxima") or {}).items():
        maxima[c] = max(maxima.get(c, v), v)
    for s in p.get("samples") or []:
        if len(samples) < 8:
            samples.append(s)
    required.update(p.get("required_cells") or [])
    for a in p.get("assumptions") or []:
        if a not in assumptions:
            assumptions.append(a)
    for a in p.get("notes") or []:
        if a not in notes and len(notes) < 40:
            notes.append(a)
    rule = p.get("rule") or rule
    level = p.get("level") or level
    exhaustive = exhaustive or bool(p.get("exhaustive"))
    violations.extend(p.get("violations") or [])

# race reports
race_blocks = 0
race_keys = {}
for rf in glob.glob(os.path.join(out, "race.*")):
    txt = open(rf, errors="replace").read()
    for blk in txt.split("WARNING: DATA RACE")[1:]:
        race_blocks += 1
        frames = re.findall(r"^\s+(github\.com/hashicorp/memberlist[\w\./\(\)\*]*|verifharness[\w\./\(\)\*]*)\(\)", blk, re.M)
        ml = [f for f in frames if f.startswith("github.com/hashicorp/memberlist")]
        key = "|".join(sorted(set(re.sub(r"[\(\)\*]", "", f.split("memberlist.")[-1]) for f in ml[:2]))) or "harness-only"
        race_keys.setdefault(key, rf)
counters["race_reports"] = race_blocks
if race_blocks:
    for key, rf in sorted(race_keys.items()):
        if key == "harness-only":
            problems.append(f"data race inside the harness itself ({rf})")
        elif pid in RACE_IS_VIOLATION:
            violations.append({"key": f"{pid}/race/{key}", "what": f"data race reported by the race detector: {key}", "replay": rf})
        else:
            notes.append(f"race detector report (informational for this property, judged by C20): {key} ({rf})")

missing = sorted(c for c in required if c not in cells)
if missing:
    problems.append(f"{len(missing)} required coverage cell(s) never observed, e.g. {missing[:5]}")
if not parts:
    problems.append("no child produced a verdict")
if parts and evaluations == 0:
    problems.append("no case was evaluated")

seen = set()
real = []
knownhits = []
for v in violations:
    if v["key"] in known_keys:
        if v["key"] not in seen:
            knownhits.append(v)
        seen.add(v["key"])
    else:
        real.append(v)

verdict = "held"
if real:
    verdict = "violated"
elif problems:
    verdict = "inconclusive"

distinct = len(cells)
if not samples:
    samples = [{"note": "no sample recorded"}]
ev = {
    "property_id": pid,
    "tier": tier if tier in ("quick", "thorough") else "quick",
    "seed": seed,
    "level": level,
    "coverage": {
        "evaluations": int(evaluations),
        "distinct_nontrivial": int(distinct),
        "rule": rule,
        "samples": samples,
        "exhaustive": exhaustive,
        "cells_hit": {k: cells[k] for k in sorted(cells)[:400]},
        "required_cells": len(required),
        "required_missing": missing[:50],
        "counters": counters,
        "maxima": maxima,
        "children": n,
        "children_with_verdict": len(parts),
        "notes": notes,
    },
    "assumptions": assumptions,
    "wall_s": round(wall, 2),
    "violations": len(real),
    "known_findings_hit": [v["key"] for v in knownhits],
    "verdict": verdict,
    "inconclusive_reasons": problems,
}
with open(os.path.join(os.environ.get("VERIF_EVIDENCE") or os.path.join(verif, "evidence"), f"{pid}.json"), "w") as f:
    json.dump(ev, f, indent=1, sort_keys=False)
    f.write("\n")

for v in knownhits:
    print(f"KNOWN-FINDING: property={pid} {v['key']} — {known_keys[v['key']].get('what','')[:200]}")
printed = set()
for v in real:
    tag = (v["key"])
    if tag in printed and len(printed) > 0:
        continue
    printed.add(tag)
    print(f"VIOLATION property={pid} replay={v['replay']}")
    print(f"  key={v['key']} what={v['what'][:400]}")
print(f"{pid} {tier} seed={seed}: verdict={verdict} evaluations={evaluations} distinct_cells={distinct} violations={len(real)} known={len(knownhits)} children={len(parts)}/{n} wall={wall:.1f}s")
for p in problems:
    print(f"INCONCLUSIVE property={pid} reason={p}")
if real:
    sys.exit(1)
if problems:
    sys.exit(2)
sys.exit(0)
