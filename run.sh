#!/bin/bash
# ./run.sh <Cnn> quick|thorough [--replay <file>]
# Builds the harness against /repo's current working tree (hooks on: -tags verif),
# runs the property's check in child processes, aggregates, writes
# evidence/<Cnn>.json. Exit 0 held / 1 violation (VIOLATION line) / 2 inconclusive.
set -u
cd "$(dirname "$0")"
VERIF=$(pwd)
ID=${1:?property id}
TIER=${2:-quick}
REPLAY=""
if [ "${3:-}" = "--replay" ]; then REPLAY=${4:?replay file}; fi
REPO=${VERIF_REPO:-/repo}

export GOFLAGS=-mod=mod GOPROXY=off
GOROOT_R=$(cd "$REPO" && go env GOROOT 2>/dev/null)
GO="$GOROOT_R/bin/go"
if [ ! -x "$GO" ]; then echo "cannot resolve go toolchain for $REPO" >&2; exit 2; fi
export GOTOOLCHAIN=local GOSUMDB=off

SEED=${VERIF_SEED:-1}
OUTROOT=${VERIF_OUTROOT:-$VERIF/out}
OUT="$OUTROOT/$ID"
BIN="$OUTROOT/bin"
mkdir -p "$OUT" "$BIN" "$VERIF/evidence"
rm -rf "$OUT/parts" "$OUT"/child-*.log; [ -z "$REPLAY" ] && rm -rf "$OUT/replay"
mkdir -p "$OUT/parts" "$OUT/replay"

# per-property execution profile: binary flavour, children quick/thorough, watchdog seconds quick/thorough
# The virtual-time (synctest) checks decide with oracles, not with the race detector, and the
# race runtime has shown rare internal crashes under heavy synctest load: they use the plain
# binary. C17 and C20 drive real goroutines and are decided (partly) by the race detector.
RACE=norace; CQ=8; CT=16; WQ=900; WT=10800
NETNS=""
case "$ID" in
  C17) RACE=race; CQ=4 ;;
  C20) RACE=race; CQ=4; CT=8
       # real sockets with dynamic ports: give every child its own network namespace so that a port a
       # node has just released cannot be grabbed by a sibling child before the re-bind check
       if unshare -n true 2>/dev/null; then NETNS="unshare -n sh -c"; fi ;;
  C10) CQ=4 ;;
esac
if [ -n "${VERIF_CHILDREN_OVERRIDE:-}" ]; then CQ=$VERIF_CHILDREN_OVERRIDE; CT=$VERIF_CHILDREN_OVERRIDE; fi

# build (serialised; the go build cache makes this a no-op when nothing changed)
T0=$(date +%s.%N)
(
  flock 9
  cd "$VERIF/harness" || exit 3
  if [ "$REPO" != "/repo" ]; then
    sed "s#=> /repo#=> $REPO#" go.mod > "$OUT/go.alt.mod"; cp go.sum "$OUT/go.alt.sum"
    MODFILE="-modfile=$OUT/go.alt.mod"
  else
    MODFILE=""
  fi
  if [ "$RACE" = race ]; then
    "$GO" test $MODFILE -c -race -tags verif -o "$BIN/harness.race.test" . > "$OUT/build.log" 2>&1 || exit 3
  else
    "$GO" test $MODFILE -c -tags verif -o "$BIN/harness.norace.test" . > "$OUT/build.log" 2>&1 || exit 3
  fi
) 9>"$BIN/.lock"
if [ $? -ne 0 ]; then
  echo "BUILD-FAILED property=$ID (see $OUT/build.log)"; tail -20 "$OUT/build.log"
  exit 1
fi
TEST="$BIN/harness.$RACE.test"

if [ -n "$REPLAY" ]; then
  CASE=$(python3 -c "import json,sys;d=json.load(open(sys.argv[1]));print(d['case'])" "$REPLAY")
  SEED=$(python3 -c "import json,sys;d=json.load(open(sys.argv[1]));print(d['seed'])" "$REPLAY")
  TIER=$(python3 -c "import json,sys;d=json.load(open(sys.argv[1]));print(d['tier'])" "$REPLAY")
  N=1
  export VERIF_CASE="$CASE"
else
  if [ "$TIER" = thorough ]; then N=$CT; W=$WT; else N=$CQ; W=$WQ; fi
fi
W=${W:-900}

export VERIF_TIER=$TIER VERIF_SEED=$SEED VERIF_OUT="$OUT" VERIF_CHILDREN=$N VERIF_DIR="$VERIF"
export VERIF_EVIDENCE=${VERIF_EVIDENCE:-$VERIF/evidence}; mkdir -p "$VERIF_EVIDENCE"
export GORACE="halt_on_error=0 log_path=$OUT/race"
rm -f "$OUT"/race.*
pids=()
for k in $(seq 0 $((N-1))); do
  if [ -n "$NETNS" ]; then
    ( cd "$OUT" && VERIF_CHILD=$k $NETNS "ip link set lo up; exec timeout -s QUIT -k 20 $W $TEST -test.run '^Test${ID}\$' -test.timeout 0 -test.v" > "$OUT/child-$k.log" 2>&1; echo $? > "$OUT/parts/$ID-$k.exit" ) &
  else
    ( cd "$OUT" && VERIF_CHILD=$k timeout -s QUIT -k 20 "$W" "$TEST" -test.run "^Test${ID}\$" -test.timeout 0 -test.v > "$OUT/child-$k.log" 2>&1; echo $? > "$OUT/parts/$ID-$k.exit" ) &
  fi
  pids+=($!)
done
for p in "${pids[@]}"; do wait "$p"; done
# A child that died of a Go-runtime / ThreadSanitizer internal failure (not a Go panic of the code
# under test) is an infrastructure failure: re-run that child, at most twice.
for attempt in 1 2; do
  redo=()
  for k in $(seq 0 $((N-1))); do
    if ! grep -q '"done": true' "$OUT/parts/$ID-$k.json" 2>/dev/null; then
      if grep -qE '^ThreadSanitizer: CHECK failed|^SIGSEGV: segmentation violation|^fatal error: unexpected signal|^fatal error: (runtime|malloc|found bad pointer)' "$OUT/child-$k.log" 2>/dev/null; then redo+=($k); fi
    fi
  done
  [ ${#redo[@]} -eq 0 ] && break
  for k in "${redo[@]}"; do
    cp "$OUT/child-$k.log" "$OUT/child-$k.infra-crash.$attempt.log"
    ( cd "$OUT" && VERIF_CHILD=$k timeout -s QUIT -k 20 "$W" "$TEST" -test.run "^Test${ID}\$" -test.timeout 0 -test.v > "$OUT/child-$k.log" 2>&1; echo $? > "$OUT/parts/$ID-$k.exit" ) &
  done
  wait
done
T1=$(date +%s.%N)

python3 "$VERIF/agg.py" "$ID" "$TIER" "$SEED" "$OUT" "$N" "$(echo "$T1 - $T0" | bc)" "$VERIF"
exit $?
